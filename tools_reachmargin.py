#!/usr/bin/env python3
"""After tools_sweep.sh runs: for every check, the smallest observed count of each required reach counter over all
sweep logs in /tmp/vf_sweep, against its threshold.  Flags counters whose margin is < 1.5x (a seed could fall short ->
INCONCLUSIVE).  Usage: tools_reachmargin.py [tier]"""
import glob, importlib, json, os, re, sys
sys.path.insert(0, os.path.dirname(os.path.abspath(__file__)))
tier = sys.argv[1] if len(sys.argv) > 1 else "quick"
for i in range(1, 21):
    pid = "C%02d" % i
    m = importlib.import_module("vf.props." + pid)
    req = dict(getattr(m, "REQUIRED_REACH", {}))
    if tier == "thorough":
        req.update(getattr(m, "REQUIRED_REACH_THOROUGH", {}))
    obs = {}
    n = 0
    for f in glob.glob("/tmp/vf_sweep/%s_%s_*.log" % (pid, tier)):
        for line in open(f, errors="replace"):
            mm = re.match(r"\[%s\] reach: (\{.*\})" % pid, line)
            if mm:
                n += 1
                r = json.loads(mm.group(1))
                for k in req:
                    obs.setdefault(k, []).append(r.get(k, 0))
    tight = {k: (min(v), req[k]) for k, v in obs.items() if min(v) < 1.5 * req[k]}
    print(pid, "runs=%d" % n, "tight:", tight if tight else "-")
