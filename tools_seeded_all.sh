#!/bin/bash
# ./tools_seeded_all.sh [tier] [jobs]  -> re-runs every seeded change against the check(s) recorded as catching it (meta.json verif.caught_by);
# one line per (change, check); a line with exit=0 is a regression of the checks.  Writes seeded/RESULTS_<tier>.txt
cd "$(dirname "$0")"
tier=${1:-quick}; jobs=${2:-3}
out=seeded/RESULTS_$tier.txt; : > $out.tmp
ls seeded | grep -E '^C[0-9]+_[a-z]$' | while read name; do
  ids=$(python3 -c "import json;v=json.load(open('seeded/$name/meta.json')).get('verif',{});print('' if v.get('obsolete') else ' '.join(v.get('caught_by',[])))")
  [ -n "$ids" ] && echo "$name $ids"
done | xargs -P $jobs -L 1 bash -c './tools_seeded.sh $0 '$tier' "${@}" 2>&1 | grep "check=" | cut -c1-220' >> $out.tmp
sort $out.tmp > $out; rm -f $out.tmp
echo "lines: $(wc -l < $out)  not caught: $(grep -c 'exit=0' $out)  inconclusive: $(grep -c 'exit=2' $out)"
