import warnings, traceback, time, sys, logging, json
logging.disable(logging.CRITICAL)
warnings.simplefilter("ignore")
import pandas as pd, numpy as np
from opendsm import eemeter as em
from concurrent.futures import ProcessPoolExecutor
def weather(rng, n, start, tz):
    idx = pd.date_range(start, periods=n, freq="D", tz=tz)
    doy = idx.dayofyear.values
    amp = rng.uniform(18,30); mean = rng.uniform(52,64); ph = rng.uniform(5,30)
    sd = rng.uniform(3,7)
    e = np.zeros(n); 
    for i in range(1,n): e[i]=0.7*e[i-1]+rng.normal(0,sd*np.sqrt(1-0.49))
    T = mean - amp*np.cos(2*np.pi*(doy-ph)/365) + e
    return idx, T
def gen(T, p, rng, noise):
    y = np.full(len(T), p["base"])
    if p["kind"] in ("both","heat"): y = y + p["hs"]*np.maximum(p["hb"]-T,0)
    if p["kind"] in ("both","cool"): y = y + p["cs"]*np.maximum(T-p["cb"],0)
    return y, y*(1+rng.normal(0,noise,len(T)))
def work(seed):
    rng = np.random.default_rng(seed)
    tz = rng.choice(["America/Chicago","UTC","Europe/London","America/Los_Angeles"])
    kind = ["both","heat","cool","flat"][seed%4]
    p = dict(kind=kind, base=rng.uniform(5,50), hb=rng.uniform(45,58), cb=rng.uniform(64,75), hs=rng.uniform(0.3,3), cs=rng.uniform(0.3,3))
    idx,T = weather(rng, 365, "2018-01-01", tz)
    ytrue,y = gen(T,p,rng,0.01)
    nh = int((T<p["hb"]).sum()); nc=int((T>p["cb"]).sum())
    df = pd.DataFrame({"temperature":T,"observed":y}, index=idx)
    idx2,T2 = weather(rng, 365, "2019-01-01", tz)
    y2true,_ = gen(T2,p,rng,0.0)
    out={}
    for fam in ["daily","legacy"]:
        try:
            bd = em.DailyBaselineData(df, is_electricity_data=True)
            m = (em.DailyModel() if fam=="daily" else em.DailyModel(model="legacy")).fit(bd, ignore_disqualification=True)
            pb = m.predict(bd, ignore_disqualification=True)
            rd = em.DailyReportingData(pd.DataFrame({"temperature":T2}, index=idx2), is_electricity_data=True)
            pr = m.predict(rd, ignore_disqualification=True)
            n1 = float(np.sqrt(np.mean((pb.predicted.values-ytrue)**2))/ytrue.mean())
            n2 = float(np.sqrt(np.mean((pr.predicted.values-y2true)**2))/y2true.mean())
            hl = float(pr.heating_load.sum()/pr.predicted.sum()); cl=float(pr.cooling_load.sum()/pr.predicted.sum())
            out[fam]=(round(n1,4),round(n2,4),round(hl,4),round(cl,4),m.best_combination,[s.coefficients.model_type.value for s in m.params.submodels.values()])
        except Exception as e:
            out[fam]=("EXC",repr(e)[:100])
    return seed,kind,nh,nc,{k:round(float(v),2) for k,v in p.items() if k!="kind"},out
if __name__=="__main__":
    with ProcessPoolExecutor(16) as ex:
        res = list(ex.map(work, range(96)))
    for r in res:
        flag = ""
        for fam,o in r[5].items():
            if o[0]=="EXC" or o[0]>0.05 or o[1]>0.05: flag="  <<<<"
            if o[0]!="EXC" and r[1] in ("cool","flat") and o[2]>0.05: flag+=" HL"
            if o[0]!="EXC" and r[1] in ("heat","flat") and o[3]>0.05: flag+=" CL"
        print(r, flag)
