import warnings, traceback, time, sys
import pandas as pd, numpy as np
from opendsm import eemeter as em
import opendsm; print(opendsm.__file__)
from opendsm.eemeter.samples import load_sample

def synth_daily(tz="America/Chicago", start="2018-01-01", n=365, seed=0, kind="both"):
    rng = np.random.default_rng(seed)
    idx = pd.date_range(start, periods=n, freq="D", tz=tz)
    doy = idx.dayofyear.values
    T = 55 - 25*np.cos(2*np.pi*(doy-15)/365) + rng.normal(0, 5, n)
    base = 20.0
    y = base + 1.2*np.maximum(50-T,0) + 0.8*np.maximum(T-68,0)
    y = y*(1+rng.normal(0,0.01,n))
    return pd.DataFrame({"temperature":T, "observed":y}, index=idx)

df = synth_daily()
try:
    t=time.time()
    bd = em.DailyBaselineData(df, is_electricity_data=True)
    print("data ok", time.time()-t, bd.disqualification, bd.warnings)
    t=time.time()
    m = em.DailyModel().fit(bd)
    print("fit ok", time.time()-t)
    print(m.to_json()[:800])
except Exception:
    traceback.print_exc()
