import warnings, logging
logging.disable(logging.CRITICAL); warnings.simplefilter("ignore")
import pandas as pd, numpy as np
from opendsm import eemeter as em
rng=np.random.default_rng(0)
idx = pd.DatetimeIndex(pd.date_range("2018-01-01", periods=365, freq="D", tz="America/Chicago").values, tz="UTC").tz_convert("America/Chicago")
print("freq before", idx.freq)
m = pd.Series(rng.uniform(1,2,365), index=idx, name="m"); t = pd.Series(rng.uniform(30,80,365), index=idx.copy(), name="t")
d = em.DailyBaselineData.from_series(m, t, is_electricity_data=True)
print("after from_series: meter idx freq", m.index.freq, "temp idx freq", t.index.freq, "names", m.name, t.name)
df = pd.DataFrame({"temperature":t.values,"observed":m.values}, index=idx.copy())
d2 = em.DailyBaselineData(df, is_electricity_data=True)
print("after ctor: df idx freq", df.index.freq)
x = d2.df; x.iloc[0,2]=-999; x["new"]=1
print("df copy independent:", d2.df.iloc[0,2]!=-999, "new" not in d2.df.columns)
