import warnings, traceback, time, sys, logging
logging.disable(logging.CRITICAL)
import pandas as pd, numpy as np
from opendsm import eemeter as em
exec(open('/tmp/probe3.py').read().split("df = synth_daily()")[0].split("from opendsm.eemeter.samples")[1].split("\n",1)[1])

df = synth_daily()
bd = em.DailyBaselineData(df, is_electricity_data=True)
for i in range(3):
    t=time.time(); m = em.DailyModel().fit(bd); print("fit", time.time()-t, m.best_combination, len(m.combinations), len(m.components))
rd = em.DailyReportingData(synth_daily(start="2019-01-01", seed=1), is_electricity_data=True)
t=time.time(); p = m.predict(rd); print("predict", time.time()-t); print(p.head(3)); print(p.dtypes)
m2 = em.DailyModel.from_json(m.to_json())
p2 = m2.predict(rd)
print("roundtrip identical:", p.equals(p2), m2.to_json()==m.to_json())
# legacy
try:
    ml = em.DailyModel(model="legacy").fit(bd)
    print("legacy ok", ml.best_combination)
    ml2 = em.DailyModel.from_json(ml.to_json())
    print("legacy roundtrip ok")
except Exception: traceback.print_exc()
