import sys, warnings, logging, traceback
logging.disable(logging.CRITICAL); warnings.simplefilter("ignore")
import pandas as pd, numpy as np
from opendsm import eemeter as em
src=open('/tmp/probe5.py').read(); exec(src[src.index("def synth_hourly"):src.index("df = synth_hourly()")])
for tz in ["America/Havana","Australia/Lord_Howe","America/Santiago","Europe/London","Asia/Kolkata","Africa/Cairo" if len(sys.argv)<2 else sys.argv[1]]:
    try:
        b = synth_hourly(tz=tz, start="2018-01-01", days=365)
        bd = em.HourlyBaselineData(b, is_electricity_data=True)
        m = em.HourlyModel(settings=dict(seed=1)).fit(bd, ignore_disqualification=True)
        r = synth_hourly(tz=tz, start="2019-01-01", days=365, seed=2)
        rd = em.HourlyReportingData(r, is_electricity_data=True)
        p = m.predict(rd, ignore_disqualification=True)
        print(tz, "OK rows", len(p), len(rd.df), p.index.equals(rd.df.index), "finite", bool(np.isfinite(p.predicted).all()), "dq", [w.qualified_name.split('.')[-1] for w in bd.disqualification])
    except Exception as e:
        print(tz, "EXC", type(e).__name__, str(e)[:150])
