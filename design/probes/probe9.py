import warnings, traceback, time, sys, logging
logging.disable(logging.CRITICAL)
warnings.simplefilter("ignore")
import pandas as pd, numpy as np
from opendsm import eemeter as em
src=open('/tmp/probe3.py').read()
exec(src[src.index("def synth_daily"):src.index("df = synth_daily()")])
df = synth_daily()
bd = em.DailyBaselineData(df, is_electricity_data=True)
m = em.DailyModel().fit(bd)
r = synth_daily(start="2019-01-01", seed=1)
r.iloc[10,0]=np.nan   # missing temperature
r.iloc[20,1]=np.nan   # missing observed
r.iloc[30,0]=np.inf
rd = em.DailyReportingData(r, is_electricity_data=True)
p = m.predict(rd)
print(p.iloc[[9,10,11,20,30]][["temperature","observed","predicted"]])
print("rows", len(p), len(rd.df), p.index.equals(rd.df.index))
print("sum obs", p.observed.sum(), "sum pred", p.predicted.sum(), "rowwise", (p.predicted-p.observed).sum())
# reporting without observed
rd2 = em.DailyReportingData(r.drop(columns="observed"), is_electricity_data=True)
p2 = m.predict(rd2); print(p2.columns.tolist()); print((p2.predicted - p.predicted).abs().max(), p2.predicted.isna().sum(), p.predicted.isna().sum())
