import warnings, traceback, time, sys, logging
logging.disable(logging.CRITICAL)
import pandas as pd, numpy as np
from opendsm.common.metrics import BaselineMetrics, ReportingMetrics
def show(obs, pred, k=2):
    df = pd.DataFrame({"observed":obs,"predicted":pred})
    try:
        bm = BaselineMetrics(df=df, num_model_params=k)
        d = bm.model_dump()
        print({k:(round(v,6) if isinstance(v,float) else v) for k,v in d.items() if not isinstance(v,dict)})
    except Exception as e:
        print("EXC", type(e).__name__, str(e)[:200])
rng=np.random.default_rng(0)
o = rng.uniform(1,2,50); p = o + rng.normal(0,0.1,50)
show(o,p)
show(o-o.mean(), p-o.mean())          # zero-mean observed
show(-o, -p)                           # negative
show(np.ones(50), np.ones(50))         # zero spread, perfect
show(np.ones(50), np.ones(50)+0.5)     # zero spread obs
o2=o.copy(); o2[3]=np.nan; p2=p.copy(); p2[7]=np.inf
show(o2,p2)
show(o[:2],p[:2])
show(np.array([1,2,3]), np.array([1.,2.,3.]))  # int dtype
