import warnings, traceback, time, sys, logging, json
logging.disable(logging.CRITICAL)
warnings.simplefilter("ignore")
import pandas as pd, numpy as np
from opendsm import eemeter as em
from opendsm.eemeter.models.daily import optimize_results as OR
from opendsm.eemeter.models.daily.base_models.full_model import get_full_model_x, full_model
from opendsm.eemeter.models.daily.utilities.base_model import get_smooth_coeffs
from concurrent.futures import ProcessPoolExecutor
exec(open('/tmp/probe14.py').read().split("def work(seed):")[0].split("from concurrent.futures import ProcessPoolExecutor")[1])
_orig = OR.OptimizedResult.__init__
def _init(self, x, bnds, coef_id, *a, **k):
    self._vf_raw_x = np.array(x, dtype=float).copy(); self._vf_raw_coef_id = list(coef_id); self._vf_bnds=np.array(bnds).copy()
    _orig(self, x, bnds, coef_id, *a, **k)
OR.OptimizedResult.__init__ = _init
def curve_from_full(x7, key, Tb, T):
    x7=list(x7)
    if key=="hdd_tidd_cdd_smooth":
        hb,hk,cb,ck = get_smooth_coeffs(x7[0],x7[2],x7[3],x7[5]); x7=[hb,x7[1],hk,cb,x7[4],ck,x7[6]]
    return full_model(*x7, Tb, T.astype(float))
def work(seed):
    df, kind = synth(seed); out=[]
    bd = em.DailyBaselineData(df, is_electricity_data=True)
    m = em.DailyModel().fit(bd, ignore_disqualification=True)
    for name, comp in list(m.fit_components.items())+[("final:"+k,v) for k,v in m.model.items()]:
        ev = comp.eval(comp.T)[0]; scale=np.max(np.abs(comp.model)); d=np.max(np.abs(ev-comp.model))/scale
        if d<=1e-9: continue
        raw=comp._vf_raw_x; ids=comp._vf_raw_coef_id
        key0 = {7:"hdd_tidd_cdd_smooth",5:"hdd_tidd_cdd",4:"c_hdd_tidd_smooth",3:"c_hdd_tidd",1:"tidd"}[len(raw)]
        Tb=np.array([comp.T_min, comp.T_max])
        x_full = get_full_model_x(key0, raw, comp.T_min, comp.T_max, comp.T_min_seg, comp.T_max_seg)
        c1 = curve_from_full(x_full, key0, Tb, comp.T); d1=np.max(np.abs(c1-comp.model))/scale
        out.append(dict(seed=seed,name=name,final_key=comp.model_key,raw_key=key0,d=float(d),d_after_get_full=float(d1),raw=[round(float(v),4) for v in raw],x_full=[round(float(v),4) for v in x_full],final_x=[round(float(v),4) for v in comp.x],Tseg=[round(comp.T_min,2),round(comp.T_min_seg,2),round(comp.T_max_seg,2),round(comp.T_max,2)]))
    return out
if __name__=="__main__":
    with ProcessPoolExecutor(16) as ex:
        res = list(ex.map(work, range(48)))
    for r in res:
        for x in r: print(json.dumps(x))
