import warnings, traceback, time, sys, logging
logging.disable(logging.CRITICAL)
warnings.simplefilter("ignore")
import pandas as pd, numpy as np
from opendsm import eemeter as em
src=open('/tmp/probe5.py').read()
exec(src[src.index("def synth_hourly"):src.index("df = synth_hourly()")])
df = synth_hourly(tz="America/Chicago", days=120)
df.iloc[5,1]=0.0
df0=df.copy()
try:
    t=time.time(); bd = em.HourlyCaltrackBaselineData(df, is_electricity_data=True); print("ct data", time.time()-t, bd.disqualification, bd.warnings)
    print("input mutated:", not df.equals(df0), df.iloc[5,1], df0.iloc[5,1])
    t=time.time(); m = em.HourlyCaltrackModel().fit(bd); print("ct fit", time.time()-t)
    rd = em.HourlyCaltrackReportingData(synth_hourly(tz="America/Chicago", start="2019-01-01", days=100, seed=1), is_electricity_data=True)
    t=time.time(); p = m.predict(rd); print("predict", time.time()-t); print(p.head(3)); print(p.predicted.isna().sum(), len(p))
except Exception: traceback.print_exc()
