import warnings, traceback, time, sys, logging
logging.disable(logging.CRITICAL)
warnings.simplefilter("ignore")
import pandas as pd, numpy as np
from opendsm import eemeter as em
src=open('/tmp/probe3.py').read()
exec(src[src.index("def synth_daily"):src.index("df = synth_daily()")])

d = synth_daily(n=400)
# monthly billing: reads on the 1st of each month
reads = d["observed"].resample("MS").sum()
reads = reads.iloc[:13]   # 12 periods + final
temp = d["temperature"]
print(reads.head(3), len(reads))
try:
    t=time.time(); bb = em.BillingBaselineData.from_series(reads, temp, is_electricity_data=True); print("billing data", time.time()-t, bb.disqualification, bb.warnings)
    print(bb.df.head(3)); print(bb.df.tail(3)); print(len(bb.df))
    # conservation
    g = bb.df["observed"].groupby([bb.df.index.year, bb.df.index.month]).sum()
    print(pd.concat([g.reset_index(drop=True), reads.iloc[:12].reset_index(drop=True)],axis=1).head(13))
    t=time.time(); m = em.BillingModel().fit(bb); print("billing fit", time.time()-t, m.best_combination)
    d2 = synth_daily(start="2019-02-01", n=400, seed=3)
    r2 = d2["observed"].resample("MS").sum().iloc[:13]
    br = em.BillingReportingData.from_series(r2, d2["temperature"], is_electricity_data=True)
    p = m.predict(br); pm = m.predict(br, aggregation="monthly"); pb = m.predict(br, aggregation="bimonthly")
    print(p.head(3)); print(pm.head(14)); print(pb.head(8))
    for c in ["observed","predicted","heating_load","cooling_load"]:
        print(c, p[c].sum(), pm[c].sum(), pb[c].sum())
    js=m.to_json(); m2=em.BillingModel.from_json(js); print("rt", m2.predict(br).equals(p), m2.to_json()==js)
except Exception: traceback.print_exc()
