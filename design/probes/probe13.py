import warnings, traceback, time, sys, logging
logging.disable(logging.CRITICAL)
warnings.simplefilter("ignore")
import pandas as pd, numpy as np
from datetime import timedelta
from opendsm.eemeter.common.transform import get_baseline_data, get_reporting_data
from opendsm.eemeter.common.exceptions import NoBaselineDataError, NoReportingDataError
idx = pd.date_range("2018-01-01", periods=800, freq="D", tz="UTC")
s = pd.DataFrame({"value": np.arange(800.0)}, index=idx)
s0 = s.copy()
def tryb(**kw):
    try:
        b,w = get_baseline_data(s, **kw)
        print("B", kw, "->", b.index[0], b.index[-1], len(b), [x.qualified_name.split(".")[-1] for x in w], "last nan", b.iloc[-1].isna().all())
    except Exception as e: print("B", kw, "EXC", type(e).__name__, e)
def tryr(**kw):
    try:
        b,w = get_reporting_data(s, **kw)
        print("R", kw, "->", b.index[0], b.index[-1], len(b), [x.qualified_name.split(".")[-1] for x in w])
    except Exception as e: print("R", kw, "EXC", type(e).__name__, e)
E = pd.Timestamp("2019-06-01", tz="UTC")
tryb(end=E); tryb(end=E+timedelta(hours=5)); tryb(end=E, max_days=10)
tryb(end=pd.Timestamp("2017-06-01", tz="UTC"))
tryb(end=pd.Timestamp("2017-06-01", tz="UTC"), allow_billing_period_overshoot=True)
tryb(end=pd.Timestamp("2017-06-01", tz="UTC"), ignore_billing_period_gap_for_day_count=True)
tryb(end=pd.Timestamp("2021-06-01", tz="UTC"))
tryb(end=pd.Timestamp("2021-06-01", tz="UTC"), ignore_billing_period_gap_for_day_count=True)
tryb(end=pd.Timestamp("2020-06-01", tz="UTC"), ignore_billing_period_gap_for_day_count=True, max_days=100)
tryb(end=idx[0])
tryb(end=idx[1])
tryr(start=E); tryr(start=pd.Timestamp("2021-06-01", tz="UTC")); tryr(start=pd.Timestamp("2021-06-01", tz="UTC"), allow_billing_period_overshoot=True)
tryr(start=pd.Timestamp("2017-06-01", tz="UTC")); tryr(start=pd.Timestamp("2017-06-01", tz="UTC"), ignore_billing_period_gap_for_day_count=True)
tryr(start=idx[-1]); tryr(start=idx[-2])
print("input unchanged", s.equals(s0))
# billing
bidx = pd.DatetimeIndex(pd.to_datetime(["2018-01-05","2018-02-03","2018-03-06","2018-04-04","2018-05-05","2018-06-04","2018-07-06","2018-08-04","2018-09-05","2018-10-05","2018-11-04","2018-12-06","2019-01-05","2019-02-04","2019-03-06"]), tz="UTC")
s = pd.DataFrame({"value": np.arange(15.0)+1}, index=bidx)
tryb(end=pd.Timestamp("2019-01-20", tz="UTC"))
tryb(end=pd.Timestamp("2019-01-20", tz="UTC"), allow_billing_period_overshoot=True)
tryb(end=pd.Timestamp("2019-01-20", tz="UTC"), allow_billing_period_overshoot=True, ignore_billing_period_gap_for_day_count=True)
tryb(end=pd.Timestamp("2019-01-20", tz="UTC"), allow_billing_period_overshoot=True, n_days_billing_period_overshoot=5, ignore_billing_period_gap_for_day_count=True)
