import warnings, logging, sys, traceback
logging.disable(logging.CRITICAL); warnings.simplefilter("ignore")
import pandas as pd, numpy as np
from opendsm import eemeter as em
rng=np.random.default_rng(1)
tz="America/Chicago"
def run(cycle, label, offcycle=False):
    t0=pd.Timestamp("2018-01-03", tz=tz); reads=[t0]
    while (reads[-1]-t0).days < 400:
        step = int(rng.integers(*cycle))
        reads.append((reads[-1].tz_localize(None)+pd.Timedelta(days=step)).tz_localize(tz))
    if offcycle: reads.insert(5, (reads[4].tz_localize(None)+pd.Timedelta(days=10)).tz_localize(tz)); reads=sorted(set(reads))
    idx=pd.DatetimeIndex(reads); vals=pd.Series(rng.integers(300,2000,len(idx)).astype(float), index=idx)
    # choose baseline of ~12 periods
    vals = vals.iloc[:14] if cycle[0]<40 else vals.iloc[:8]
    tidx=pd.date_range(vals.index[0], vals.index[-1]+pd.Timedelta(days=2), freq="D")
    temp=pd.Series(rng.uniform(20,90,len(tidx)), index=tidx)
    try:
        d=em.BillingBaselineData.from_series(vals, temp, is_electricity_data=True)
    except Exception as e:
        print(label,"EXC",type(e).__name__,str(e)[:120]); return
    obs=d.df["observed"]; bad=0; rows=[]
    for a,b,v in zip(vals.index[:-1], vals.index[1:], vals.values[:-1]):
        seg = obs[(obs.index>=a)&(obs.index<b)]
        n=(b.tz_localize(None)-a.tz_localize(None)).days
        rows.append((n, round(float(seg.sum()),6) if seg.notna().any() else None, v))
    print(label, "span", len(obs), "dq", [w.qualified_name.split('.')[-1] for w in d.disqualification], rows[:14])
run((28,33),"monthly"); run((57,64),"bimonthly"); run((28,33),"monthly+offcycle", True); run((25,36),"edge")
