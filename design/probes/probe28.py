import warnings, logging, sys, collections, traceback
logging.disable(logging.CRITICAL); warnings.simplefilter("ignore")
import pandas as pd, numpy as np
from datetime import timedelta
from opendsm.eemeter.common.transform import get_baseline_data, get_reporting_data
from opendsm.eemeter.common.exceptions import NoBaselineDataError, NoReportingDataError
rng=np.random.default_rng(0)
out=collections.Counter(); ex=[]
def series():
    kind=rng.choice(["h","D","bill"]); tz=rng.choice(["UTC","America/Chicago","Australia/Sydney"])
    t0=pd.Timestamp("2017-01-01",tz=tz)+pd.Timedelta(days=int(rng.integers(0,300)), hours=int(rng.integers(0,24)))
    if kind=="h": idx=pd.date_range(t0, periods=int(rng.integers(3,2000)), freq="h")
    elif kind=="D": idx=pd.date_range(t0.normalize(), periods=int(rng.integers(3,800)), freq="D")
    else:
        steps=rng.integers(25,36,int(rng.integers(3,30))); idx=pd.DatetimeIndex([(t0.normalize().tz_localize(None)+pd.Timedelta(days=int(x))).tz_localize(tz) for x in np.cumsum(steps)])
    v=rng.uniform(1,5,len(idx)); v[rng.random(len(idx))<0.05]=np.nan
    return pd.DataFrame({"value":v}, index=idx), kind
for it in range(4000):
    df,kind=series(); df0=df.copy(deep=True)
    lo,hi=df.index[0],df.index[-1]; span=(hi-lo)
    cut = lo - pd.Timedelta(days=30) + (span+pd.Timedelta(days=60))*rng.random()
    if rng.random()<0.3: cut=df.index[int(rng.integers(0,len(df)))]
    md = None if rng.random()<0.1 else int(rng.integers(1,800))
    opts=dict(allow_billing_period_overshoot=bool(rng.random()<0.5), ignore_billing_period_gap_for_day_count=bool(rng.random()<0.5))
    base = rng.random()<0.5
    try:
        if base:
            if rng.random()<0.3: opts["n_days_billing_period_overshoot"]=int(rng.integers(0,40))
            r,w=get_baseline_data(df,end=cut,max_days=md,**opts)
        else:
            r,w=get_reporting_data(df,start=cut,max_days=md,**opts)
    except (NoBaselineDataError,NoReportingDataError) as e:
        out["dedicated"]+=1; continue
    except Exception as e:
        out["EXC:"+type(e).__name__]+=1
        if len(ex)<6: ex.append((kind,base,str(cut),md,opts,repr(e)[:80]))
        continue
    out["ok"]+=1
    if not df.equals(df0): out["INPUT-MUTATED"]+=1
    # slice contiguity
    pos=df.index.get_indexer(r.index)
    if (pos<0).any() or (np.diff(pos)!=1).any(): out["NOT-SLICE"]+=1
    if base and (r.index>cut).any(): out["LEAK-after-end"]+=1
    if (not base) and (r.index<cut).any(): out["LEAK-before-start"]+=1
    body=r.iloc[:-1]; ref=df.loc[body.index]
    if not ((body.value==ref.value)|(body.value.isna()&ref.value.isna())).all(): out["VALUES"]+=1
    if not r.iloc[-1].isna().all(): out["LAST-NOT-NAN"]+=1
    if md is not None and not opts["allow_billing_period_overshoot"] and not opts["ignore_billing_period_gap_for_day_count"]:
        if base and (r.index < cut - timedelta(days=md)).any(): out["TOO-EARLY"]+=1
        if (not base) and (r.index > cut + timedelta(days=md)).any(): out["TOO-LATE"]+=1
    names=[x.qualified_name.split(".")[-1] for x in w]
    if base:
        gap_end = cut>hi
        if gap_end and "gap_at_baseline_end" not in names: out["MISSING-gap-end:"+str(opts["ignore_billing_period_gap_for_day_count"])]+=1
        if md is not None and not opts["allow_billing_period_overshoot"] and not opts["ignore_billing_period_gap_for_day_count"]:
            if (cut - timedelta(days=md) < lo) and "gap_at_baseline_start" not in names: out["MISSING-gap-start"]+=1
    else:
        if cut<lo and "gap_at_reporting_start" not in names: out["MISSING-rgap-start:"+str(opts["ignore_billing_period_gap_for_day_count"])]+=1
print(dict(out)); print(ex)
