import warnings, logging, sys, collections, datetime as dt, json
logging.disable(logging.CRITICAL); warnings.simplefilter("ignore")
import pandas as pd, numpy as np, pytz
from opendsm.eemeter.models.hourly.model import _get_dst_indices, _transform_dst
from concurrent.futures import ProcessPoolExecutor
lo=dt.datetime(2000,1,1); hi=dt.datetime(2038,1,1)
def cases():
    seen=set()
    for name in sorted(pytz.all_timezones):
        z=pytz.timezone(name); tt=getattr(z,'_utc_transition_times',None)
        if not tt: continue
        infos=z._transition_info
        for i,(t,info) in enumerate(zip(tt,infos)):
            if i==0 or not (lo<=t<hi): continue
            d=(info[0]-infos[i-1][0]).total_seconds()
            if d==0: continue
            yield name, t.isoformat(), d
def check(c):
    name,t,d = c
    tu = pd.Timestamp(t, tz="UTC"); loc = tu.tz_convert(name)
    try:
        start = (loc - pd.Timedelta(days=2)).replace(hour=0,minute=0,second=0,microsecond=0)
        end = (loc + pd.Timedelta(days=2)).replace(hour=23,minute=0,second=0,microsecond=0)
        idx = pd.date_range(start=start, end=end, freq="h")
    except Exception as e:
        return (name,t,d,"GEN:"+type(e).__name__)
    df = pd.DataFrame({"observed":1.0}, index=idx)
    ndays = len(set(idx.date))
    try:
        interp, mean = _get_dst_indices(df)
    except Exception as e:
        return (name,t,d,"IDX:"+type(e).__name__)
    counts = df.groupby(df.index.date).size().values
    # slots after correction must be 24 per day
    corr = counts.copy()
    for (di,h) in interp: corr[di]+=1
    for (di,h) in mean: corr[di]-=1
    if not (corr==24).all(): return (name,t,d,"SLOTS:"+str(sorted(set(corr.tolist()))))
    pred = np.arange(ndays*24, dtype=float)
    try:
        out = _transform_dst(pred, (interp, mean))
    except Exception as e:
        return (name,t,d,"TR:"+type(e).__name__)
    if len(out)!=len(idx): return (name,t,d,"LEN")
    if not (np.diff(out)>0).all(): return (name,t,d,"ORDER")
    return (name,t,d,"ok")
if __name__=="__main__":
    cs=list(cases())
    with ProcessPoolExecutor(16) as ex: res=list(ex.map(check, cs, chunksize=64))
    cnt=collections.Counter((r[3].split(":")[0] if r[3]!="ok" else "ok", "pm1h" if abs(r[2])==3600 else "sub" if abs(r[2])<3600 else "multi") for r in res)
    print(cnt)
    bad=[r for r in res if r[3]!="ok"]
    byzone=collections.Counter(r[0] for r in bad); print(len(bad), len(byzone), list(byzone.items())[:25])
    print([r for r in bad if abs(r[2])==3600][:8])
