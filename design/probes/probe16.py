import warnings, logging, json, itertools
logging.disable(logging.CRITICAL); warnings.simplefilter("ignore")
import pandas as pd, numpy as np
from opendsm import eemeter as em
# C11: build model from dict
def mk(coefs, tc=None, settings=None):
    d = {"submodels": {"fw-su_sh_wi": {"coefficients": coefs, "temperature_constraints": tc or {"T_min":10,"T_max":95,"T_min_seg":20,"T_max_seg":85}, "f_unc": 1.0}},
         "info": {"error": {}, "baseline_timezone":"UTC","disqualification":[],"warnings":[]}, "settings": settings or em.DailyModel().settings.model_dump()}
    return em.DailyModel.from_dict(d)
T = np.linspace(-60,140,2001)
idx = pd.date_range("2020-01-01", periods=len(T), freq="D", tz="UTC")
rd = em.DailyReportingData(pd.DataFrame({"temperature":T}, index=idx), is_electricity_data=True)
def run(name, coefs, tc=None):
    m = mk(coefs, tc); p = m.predict(rd)
    y=p.predicted.values; h=p.heating_load.values; c=p.cooling_load.values
    print(name, "min y", round(y.min(),3), "min h", round(h.min(),3), "min c", round(c.min(),3), "both>0", int(((h!=0)&(c!=0)).sum()), "sumerr", float(np.max(np.abs(coefs["intercept"]+h+c-y))), "maxjump", round(float(np.max(np.abs(np.diff(y)))),3))
base=dict(hdd_bp=None,hdd_beta=None,hdd_k=None,cdd_bp=None,cdd_beta=None,cdd_k=None)
run("hdd_tidd bp<Tmax", {**base,"model_type":"hdd_tidd","intercept":20,"hdd_bp":55,"hdd_beta":-1.5})
run("hdd_tidd bp=Tmax", {**base,"model_type":"hdd_tidd","intercept":20,"hdd_bp":95,"hdd_beta":-1.5})
run("tidd_cdd bp=Tmin", {**base,"model_type":"tidd_cdd","intercept":20,"cdd_bp":10,"cdd_beta":1.5})
run("hdd_tidd_smooth", {**base,"model_type":"hdd_tidd_smooth","intercept":20,"hdd_bp":55,"hdd_beta":-1.5,"hdd_k":5.0})
run("hdd_tidd_smooth bp=Tmax", {**base,"model_type":"hdd_tidd_smooth","intercept":20,"hdd_bp":95,"hdd_beta":-1.5,"hdd_k":5.0})
run("full smooth", {"model_type":"hdd_tidd_cdd_smooth","intercept":20,"hdd_bp":50,"hdd_beta":1.5,"hdd_k":0.4,"cdd_bp":70,"cdd_beta":0.8,"cdd_k":0.3})
run("full smooth k sum>1", {"model_type":"hdd_tidd_cdd_smooth","intercept":20,"hdd_bp":50,"hdd_beta":1.5,"hdd_k":0.9,"cdd_bp":70,"cdd_beta":0.8,"cdd_k":0.8})
run("full", {**base,"model_type":"hdd_tidd_cdd","intercept":20,"hdd_bp":50,"hdd_beta":1.5,"cdd_bp":70,"cdd_beta":0.8})
run("full cdd_bp>=Tmax_seg", {**base,"model_type":"hdd_tidd_cdd","intercept":20,"hdd_bp":50,"hdd_beta":1.5,"cdd_bp":90,"cdd_beta":0.8})
run("full equal bp", {**base,"model_type":"hdd_tidd_cdd","intercept":20,"hdd_bp":60,"hdd_beta":1.5,"cdd_bp":60,"cdd_beta":0.8})
# C13: combos
m = em.DailyModel()
import types
n=366; i2=pd.date_range("2020-01-01", periods=n, freq="D", tz="UTC")
rng=np.random.default_rng(0)
m.df_meter,_ = m._initialize_data(pd.DataFrame({"temperature":rng.uniform(20,90,n),"observed":rng.uniform(1,2,n)}, index=i2))
m.settings = em.DailyModel(settings={"developer_mode":True,"silent_developer_mode":True,"split_selection":{"reduce_splits_by_gaussian":False, "reduce_splits_num_std": None}}).settings
c = m._combinations(); print(len(c), c[:6], c[-3:])
