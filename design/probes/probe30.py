import warnings, logging, sys, collections, traceback, json
logging.disable(logging.CRITICAL); warnings.simplefilter("ignore")
import pandas as pd, numpy as np
from opendsm import eemeter as em
from opendsm.eemeter.common.exceptions import DataSufficiencyError, DisqualifiedModelError
src=open('/tmp/probe5.py').read(); exec(src[src.index("def synth_hourly"):src.index("df = synth_hourly()")])
src=open('/tmp/probe3.py').read(); exec(src[src.index("def synth_daily"):src.index("df = synth_daily()")])
rng=np.random.default_rng(0)
b=synth_hourly(); b.iloc[100:130,1]=np.nan; b.iloc[4000:4010,0]=np.nan
bd=em.HourlyBaselineData(b, is_electricity_data=True)
m=em.HourlyModel(settings=dict(seed=1)).fit(bd)
p=m.predict(bd)
keep=~p[[c for c in p.columns if c.startswith("interpolated_")]].any(axis=1)
o=p.observed[keep].values; q=p.predicted[keep].values; r=o-q; n=len(o); k=m.baseline_metrics.num_model_params
rmse=np.sqrt(np.mean(r**2)); rmse_adj=np.sqrt(np.sum(r**2)/(n-k)); iqr=np.subtract(*np.quantile(o,[0.75,0.25]))
bm=m.baseline_metrics
print("C16 hourly n",bm.n,n,"rmse",bm.rmse,rmse,"cvrmse_adj",bm.cvrmse_adj,rmse_adj/o.mean(),"pnrmse_adj",bm.pnrmse_adj,rmse_adj/iqr, "dq", [w.qualified_name for w in m.disqualification])
# poor fit hourly
nb=synth_hourly(seed=3); nb["observed"]=rng.lognormal(0,2.5,len(nb))
nbd=em.HourlyBaselineData(nb,is_electricity_data=True)
mp=em.HourlyModel(settings=dict(seed=1)).fit(nbd, ignore_disqualification=True)
print("poor fit: cvrmse_adj",mp.baseline_metrics.cvrmse_adj,"pnrmse_adj",mp.baseline_metrics.pnrmse_adj,"dq",[w.qualified_name for w in mp.disqualification], "data dq", [w.qualified_name.split('.')[-1] for w in nbd.disqualification])
def outcome(f):
    try: f(); return "ok"
    except Exception as e: return type(e).__name__
rd=em.HourlyReportingData(synth_hourly(start="2019-01-01",days=30,seed=5),is_electricity_data=True)
print("gate:", outcome(lambda: mp.predict(rd)), outcome(lambda: mp.predict(rd,ignore_disqualification=True)))
try:
    mp2=em.HourlyModel.from_json(mp.to_json()); print("stored gate:", outcome(lambda: mp2.predict(rd)), outcome(lambda: mp2.predict(rd,ignore_disqualification=True)))
except Exception as e: print("poor-fit model to_json/from_json EXC", type(e).__name__, str(e)[:150])
# daily gate with short data
sd=em.DailyBaselineData(synth_daily(n=200), is_electricity_data=True)
print("short dq", [w.qualified_name.split('.')[-1] for w in sd.disqualification], outcome(lambda: em.DailyModel().fit(sd)), outcome(lambda: em.DailyModel().fit(sd, ignore_disqualification=True)))
md=em.DailyModel().fit(sd, ignore_disqualification=True); r2=em.DailyReportingData(synth_daily(start="2019-01-01",n=30,seed=2), is_electricity_data=True)
md2=em.DailyModel.from_json(md.to_json())
print("daily gate:", outcome(lambda: md.predict(r2)), outcome(lambda: md.predict(r2,ignore_disqualification=True)), "stored:", outcome(lambda: md2.predict(r2)), outcome(lambda: md2.predict(r2,ignore_disqualification=True)), "foreign:", outcome(lambda: md.predict(rd, ignore_disqualification=True)), outcome(lambda: md.predict(r2.df, ignore_disqualification=True)), "unfitted:", outcome(lambda: em.DailyModel().predict(r2)))
