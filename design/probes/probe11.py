import warnings, traceback, time, sys, logging
logging.disable(logging.CRITICAL)
warnings.simplefilter("ignore")
import pandas as pd, numpy as np
from opendsm import eemeter as em
rng=np.random.default_rng(0)
def mk(tz, start, n):
    idx = pd.date_range(start, periods=n, freq="D", tz=tz)
    return pd.DataFrame({"temperature": rng.uniform(30,80,n), "observed": rng.uniform(10,20,n)}, index=idx)
for tz,start,n in [("UTC","2018-01-01",329),("UTC","2018-01-01",328),("UTC","2018-01-01",365),("UTC","2018-01-01",366),
                   ("America/Chicago","2018-01-01",329),("America/Chicago","2017-11-15",329),("America/Chicago","2018-01-01",365),("America/Chicago","2018-04-01",329),("America/Chicago","2018-04-01",330), ("America/Chicago","2018-04-01",365),("America/Chicago","2018-04-01",366)]:
    df = mk(tz,start,n)
    bd = em.DailyBaselineData(df, is_electricity_data=True)
    print(tz,start,n, df.index[-1], [ (w.qualified_name.split(".")[-1], w.data) for w in bd.disqualification])
