import warnings, traceback, time, sys, logging
logging.disable(logging.CRITICAL)
warnings.simplefilter("ignore")
import pandas as pd, numpy as np
from opendsm import eemeter as em
tz="America/Chicago"
days = pd.date_range("2018-01-01", periods=365, freq="D", tz=tz)
rng=np.random.default_rng(0)
meter = pd.Series(rng.uniform(10,20,365), index=days, name="observed")
for freq in ["h","30min"]:
    tidx = pd.date_range(pd.Timestamp("2018-01-01",tz=tz), pd.Timestamp("2019-01-01",tz=tz), freq=freq, inclusive="left")
    temp = pd.Series(50+10*np.sin(np.arange(len(tidx))/7.0)+rng.normal(0,1,len(tidx)), index=tidx, name="temperature")
    temp2 = temp.copy()
    # 25% of Jan 5 missing (NaN)
    day = temp2.loc["2018-01-05"]
    temp2.loc[day.index[: len(day)//4]] = np.nan
    # 60% of Jan 7 missing
    day = temp2.loc["2018-01-07"]
    temp2.loc[day.index[: int(len(day)*0.6)]] = np.nan
    try:
        bd = em.DailyBaselineData.from_series(meter, temp2, is_electricity_data=True)
        ref = temp2.groupby(temp2.index.tz_convert(tz).date).mean()
        got = bd.df["temperature"]
        print(freq, "rows", len(got), [w.qualified_name for w in bd.warnings], [w.qualified_name for w in bd.disqualification])
        for d in ["2018-01-04","2018-01-05","2018-01-07","2018-03-11","2018-11-04", "2018-12-31"]:
            print("  ", d, float(got.loc[d]) , float(ref.loc[pd.Timestamp(d).date()]))
        diff = (got.values[:-1] - ref.values[:len(got)-1])
        print("   max abs diff (excluding marked days)", np.nanmax(np.abs(np.delete(diff,[4,6]))))
    except Exception: traceback.print_exc()
