import warnings, logging, sys, itertools, traceback, collections
logging.disable(logging.CRITICAL); warnings.simplefilter("ignore")
import pandas as pd, numpy as np, pydantic
from opendsm import eemeter as em
from opendsm.eemeter.models.daily.utilities.settings import DailySettings, DailyLegacySettings
from opendsm.eemeter.models.billing.settings import BillingSettings
import io, contextlib
# C14: developer lock enumeration
def alt(v, ann):
    if isinstance(v,bool): return not v
    if isinstance(v,(int,float)): return v*0.5+0.123 if not isinstance(v,int) else v+1
    if isinstance(v,str): return None
    if isinstance(v,list): return [x*1.1 for x in v] if all(isinstance(x,(int,float)) for x in v) else None
    if v is None: return 0.25
    return None
res=collections.Counter(); holes=[]
for cls in (DailySettings, DailyLegacySettings, BillingSettings):
    base=cls()
    def walk(model, path):
        for k,f in type(model).model_fields.items():
            v=getattr(model,k)
            if isinstance(v,pydantic.BaseModel): yield from walk(v, path+[k]); continue
            yield path+[k], v, f
    for path,v,f in walk(base,[]):
        dev = (f.json_schema_extra or {}).get("developer")
        a = alt(v,f.annotation)
        if path[-1]=="algorithm_choice": a="nlopt_direct"
        if path[-1]=="initial_guess_algorithm_choice": a="nlopt_sbplx"
        if path[-1]=="full_model": a="tidd"
        if path[-1]=="criteria": a="aic"
        if path[-1]=="alpha_final_type": a="all"
        if path[-1]=="alpha_final": a=1.5
        if path[-1] in ("options","developer_mode","silent_developer_mode"): continue
        if a is None and not isinstance(v,str): continue
        if isinstance(v,str) and a is None: a = {"winter":"summer","summer":"winter","shoulder":"winter","weekday":"weekend","weekend":"weekday"}.get(v)
        if a is None: continue
        d={}; cur=d
        for p in path[:-1]: cur[p]={}; cur=cur[p]
        cur[path[-1]]=a
        with contextlib.redirect_stdout(io.StringIO()):
            try: cls(**d); acc=True
            except Exception as e: acc=False
            try: cls(**{**d,"developer_mode":True}); accdev=True
            except Exception as e: accdev=False
        parent_dev = path[0] in ("split_selection",)
        expected_locked = bool(dev) or parent_dev
        res[(cls.__name__, "locked" if not acc else "open", "devfield" if expected_locked else "userfield")]+=1
        if expected_locked and acc: holes.append((cls.__name__,".".join(path),a))
        if (not expected_locked) and not acc: holes.append(("REJECTED-USER",cls.__name__,".".join(path),a))
        if not accdev: holes.append(("DEVMODE-REJECT",cls.__name__,".".join(path),a))
print(dict(res)); print("holes", holes[:12])
# C13: exact cover of candidates under all flags
cells=set(itertools.product(["su","sh","wi"],["wd","we"]))
def cover(combo):
    got=collections.Counter()
    for comp in combo.split("__"):
        day=comp[:2]; seas=comp[3:].split("_")
        for s in seas:
            for d in (["wd","we"] if day=="fw" else [day]): got[(s,d)]+=1
    return set(got)==cells and all(v==1 for v in got.values())
n=366; i2=pd.date_range("2020-01-01", periods=n, freq="D", tz="UTC"); rng=np.random.default_rng(0)
bad=0; tot=0; sizes=[]
for flags in itertools.product([True,False],repeat=4):
    with contextlib.redirect_stdout(io.StringIO()):
        m=em.DailyModel(settings={"developer_mode":True,"split_selection":{"allow_separate_summer":flags[0],"allow_separate_shoulder":flags[1],"allow_separate_winter":flags[2],"allow_separate_weekday_weekend":flags[3],"reduce_splits_by_gaussian":False,"reduce_splits_num_std":None}})
    m.df_meter,_=m._initialize_data(pd.DataFrame({"temperature":rng.uniform(20,90,n),"observed":rng.uniform(1,2,n)}, index=i2))
    c=m._combinations(); sizes.append(len(c))
    for combo in c:
        tot+=1
        if not cover(combo): bad+=1
        if "wd" in combo and not flags[3]: bad+=1; print("forbidden wd", flags, combo)
        for comp in combo.split("__"):
            seas=comp[3:].split("_")
            if len(seas)==1 and not dict(su=flags[0],sh=flags[1],wi=flags[2])[seas[0]]: bad+=1; print("forbidden season", flags, combo)
    assert "fw-su_sh_wi" in c
print("C13 candidates", tot, "bad", bad, "sizes", sizes)
