import sys, warnings, logging
logging.disable(logging.CRITICAL); warnings.simplefilter("ignore")
import pandas as pd, numpy as np
from opendsm import eemeter as em
from opendsm.eemeter.models.hourly import model as hm
code = [c for c in hm.HourlyModel._get_feature_matrices.__code__.co_consts if hasattr(c,"co_name") and c.co_name=="correct_dst"][0]
mon = sys.monitoring; TOOL=4
mon.use_tool_id(TOOL, "vf")
events=[]
def on_return(c, off, retval):
    f = sys._getframe(1)
    agg = f.f_locals.get("agg")
    events.append((len(agg), sorted({len(feat) for day in agg for feat in day}), f.f_locals.get("interp"), f.f_locals.get("mean") if not callable(f.f_locals.get("mean")) else None))
mon.register_callback(TOOL, mon.events.PY_RETURN, on_return)
mon.set_local_events(TOOL, code, mon.events.PY_RETURN)
src=open('/tmp/probe5.py').read(); exec(src[src.index("def synth_hourly"):src.index("df = synth_hourly()")])
m = em.HourlyModel(settings=dict(seed=1)).fit(em.HourlyBaselineData(synth_hourly(days=120, start="2018-02-01"), is_electricity_data=True), ignore_disqualification=True)
print(events)
