import warnings, logging, json, sys, traceback
logging.disable(logging.CRITICAL); warnings.simplefilter("ignore")
import pandas as pd, numpy as np
from opendsm import eemeter as em
rng=np.random.default_rng(0)
# C17
tz="America/Chicago"
idx = pd.date_range(pd.Timestamp("2018-03-08 05:00",tz=tz), pd.Timestamp("2018-04-20 17:00",tz=tz), freq="h")
df = pd.DataFrame({"temperature":rng.uniform(30,80,len(idx)), "observed":rng.uniform(0.5,2,len(idx))}, index=idx)
df.iloc[10:14,0]=np.nan; df.iloc[100:160,1]=np.nan; df.iloc[200,1]=0.0
df = df.drop(df.index[300:310])
df = pd.concat([df, df.iloc[[50]].assign(observed=99.0)]).sort_index(kind="stable")
d = em.HourlyBaselineData(df, is_electricity_data=True)
o = d.df
print("C17 rows", len(o), o.index[0], o.index[-1], "nan left", int(o[["temperature","observed"]].isna().sum().sum()), "flags", int(o.interpolated_temperature.sum()), int(o.interpolated_observed.sum()))
inp = df[~df.index.duplicated(keep="first")]
common = inp.index
mism_T = int(((o.loc[common,"temperature"]!=inp["temperature"]) & inp["temperature"].notna()).sum())
obs_in = inp["observed"].where(inp["observed"]!=0)
mism_O = int(((o.loc[common,"observed"]!=obs_in) & obs_in.notna()).sum())
print("  value mismatches", mism_T, mism_O, "dup kept first:", float(o.loc[df.index[50],"observed"])!=99.0)
exp_flag_T = ~o.index.isin(inp.index[inp.temperature.notna()])
print("  flag exact T:", bool((exp_flag_T == o.interpolated_temperature.values).all()))
# C18
from opendsm.eemeter.models.hourly_caltrack.segmentation import segment_time_series
from opendsm.eemeter.common.features import compute_temperature_bin_features, compute_time_features
i = pd.date_range("2020-01-01", "2021-01-01", freq="h", tz="Australia/Sydney", inclusive="left")
w = segment_time_series(i, "three_month_weighted"); print("C18 weights rowsum unique", np.unique(w.sum(axis=1).values), "full-weight count per row", np.unique((w==1).sum(axis=1).values), "half", np.unique((w==0.5).sum(axis=1).values))
Ts = pd.Series(np.concatenate([np.linspace(-40,130,500),[30,45,55,65,75,90]]))
b = compute_temperature_bin_features(Ts, [30,45,55,65,75,90]); print("  bins sum err", float((b.sum(axis=1)-Ts).abs().max()))
tf = compute_time_features(i); print("  how ok", bool((tf.hour_of_week.astype(int)==i.dayofweek*24+i.hour).all()), tf.hour_of_week.nunique())
# C08 sub-daily
idx = pd.date_range(pd.Timestamp("2018-01-01",tz=tz), pd.Timestamp("2018-12-20",tz=tz), freq="15min", inclusive="left")
v = pd.Series(rng.integers(1,100,len(idx)).astype(float), index=idx)
t = pd.Series(rng.uniform(30,80,len(idx)//4), index=idx[::4])
v2=v.copy(); v2.loc["2018-02-03 00:00":"2018-02-03 07:45"]=np.nan   # 1/3 missing
v2.loc["2018-02-05 00:00":"2018-02-05 14:45"]=np.nan  # >half missing
try:
    dd = em.DailyBaselineData.from_series(v2, t, is_electricity_data=True)
    ref = v2.groupby(v2.index.date).sum(min_count=1)
    got = dd.df["observed"]
    for day in ["2018-01-10","2018-02-03","2018-02-05","2018-03-11","2018-11-04"]:
        print("  C08", day, float(got.loc[day]), float(ref.loc[pd.Timestamp(day).date()]))
except Exception: traceback.print_exc()
