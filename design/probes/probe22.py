import sys, warnings, logging, traceback
logging.disable(logging.CRITICAL); warnings.simplefilter("ignore")
import pandas as pd, numpy as np
from opendsm import eemeter as em
src=open('/tmp/probe3.py').read(); exec(src[src.index("def synth_daily"):src.index("df = synth_daily()")])
src=open('/tmp/probe5.py').read(); exec(src[src.index("def synth_hourly"):src.index("df = synth_hourly()")])
rng=np.random.default_rng(0)
# v: billing tz
d = synth_daily(n=400); reads = d["observed"].resample("MS").sum().iloc[:13]
bb = em.BillingBaselineData.from_series(reads, d["temperature"], is_electricity_data=True)
m = em.BillingModel().fit(bb)
d2 = synth_daily(tz="Europe/London", start="2019-01-01", n=400, seed=2); r2=d2["observed"].resample("MS").sum().iloc[:13]
br = em.BillingReportingData.from_series(r2, d2["temperature"], is_electricity_data=True)
try: m.predict(br); print("v: billing predicts in foreign tz (no raise)")
except Exception as e: print("v: raises", type(e).__name__)
try: em.BillingModel().predict(br); print("unfitted predicts?!")
except Exception as e: print("unfitted billing raises", type(e).__name__)
# h: alias lists
noisy = synth_daily(); noisy["observed"] = rng.uniform(0.01, 100, len(noisy))**3
bd = em.DailyBaselineData(noisy, is_electricity_data=True)
n0=len(bd.disqualification)
mm = em.DailyModel().fit(bd, ignore_disqualification=True)
print("h: data dq before/after fit", n0, len(bd.disqualification), [w.qualified_name for w in bd.disqualification], "CVRMSE", mm.error["CVRMSE"])
# s: model.error vs final
good = em.DailyBaselineData(synth_daily(seed=5), is_electricity_data=True)
mg = em.DailyModel().fit(good); pb = mg.predict(good)
r = (pb.observed-pb.predicted).dropna(); print("s: model.error RMSE", mg.error["RMSE"], "RMSE of predict(baseline)", float(np.sqrt((r**2).mean())), "MAE", mg.error["MAE"], float(r.abs().mean()))
# m: hourly reporting without observed -> DQ?
hr = synth_hourly(start="2019-01-01", days=60, seed=3).drop(columns="observed")
rd = em.HourlyReportingData(hr, is_electricity_data=True)
print("m: hourly reporting (no observed) dq:", [w.qualified_name.split(".")[-1] for w in rd.disqualification])
rd2 = em.HourlyReportingData(synth_hourly(start="2019-01-01", days=400, seed=3), is_electricity_data=True)
print("m: hourly reporting 400 days dq:", [w.qualified_name.split(".")[-1] for w in rd2.disqualification])
# n: offcycle
idx = pd.DatetimeIndex(pd.to_datetime(["2018-01-01","2018-02-01","2018-03-01","2018-03-11","2018-04-01","2018-05-01","2018-06-01","2018-07-01","2018-08-01","2018-09-01","2018-10-01","2018-11-01","2018-12-01","2019-01-01"])).tz_localize("America/Chicago")
reads = pd.Series(rng.uniform(500,900,len(idx)), index=idx)
bb2 = em.BillingBaselineData.from_series(reads, d["temperature"], is_electricity_data=True)
print("n: offcycle -> dq", [w.qualified_name.split(".")[-1] for w in bb2.disqualification], "warn", [w.qualified_name.split(".")[-1] for w in bb2.warnings])
