import warnings, logging, sys, collections, traceback
logging.disable(logging.CRITICAL); warnings.simplefilter("ignore")
import pandas as pd, numpy as np
from opendsm import eemeter as em
from concurrent.futures import ProcessPoolExecutor
def case(seed):
    rng=np.random.default_rng(seed); out=collections.Counter()
    tz=rng.choice(["UTC","America/Chicago","Australia/Sydney","Asia/Kolkata","Europe/London"])
    days=int(rng.choice([4,5,10,30,90,400]))
    t0=pd.Timestamp("2018-01-01",tz=tz)+pd.Timedelta(days=int(rng.integers(0,365)), hours=int(rng.integers(0,24)))
    idx=pd.date_range(t0, periods=days*24+int(rng.integers(0,24)), freq="h")
    ghi = rng.random()<0.3; elec = rng.random()<0.7
    df=pd.DataFrame({"temperature":rng.uniform(-10,100,len(idx)), "observed":rng.uniform(0.1,5,len(idx))}, index=idx)
    if ghi: df["ghi"]=rng.uniform(0,900,len(idx))
    # holes
    for col in df.columns:
        k=rng.random(len(idx))<rng.choice([0,0.01,0.1,0.4]); df.loc[k,col]=np.nan
        if rng.random()<0.3:
            a=int(rng.integers(0,len(idx))); b=a+int(rng.integers(1,24*8)); df.iloc[a:b, df.columns.get_loc(col)]=np.nan
    zeros=rng.random(len(idx))<0.02; df.loc[zeros,"observed"]=0.0
    drop=rng.random(len(idx))<rng.choice([0,0.02,0.2]); df=df[~drop]
    if len(df)<3: return out
    dup=df.iloc[rng.integers(0,len(df),3)].copy(); dup["observed"]=777.0
    df=pd.concat([df,dup]).sort_index(kind="stable")
    inp=df.copy(deep=True)
    try:
        d=em.HourlyBaselineData(df, is_electricity_data=bool(elec)) if rng.random()<0.5 else em.HourlyReportingData(df, is_electricity_data=bool(elec))
    except Exception as e:
        out["EXC:"+type(e).__name__+":"+str(e)[:60]]+=1; return out
    out["ok"]+=1
    if not df.equals(inp): out["INPUT-MUTATED"]+=1
    o=d.df; first=inp[~inp.index.duplicated(keep="first")]
    exp_idx=pd.date_range(first.index.min().replace(hour=0), first.index.max().replace(hour=23), freq="h")
    if not o.index.equals(exp_idx): out["INDEX"]+=1; return out
    for col in [c for c in ["temperature","observed","ghi"] if c in first.columns]:
        sup=first[col].copy()
        if col=="observed" and elec: sup=sup.where(sup!=0)
        sup=sup.dropna()
        if not (o.loc[sup.index,col].values==sup.values).all(): out["VALUE-CHANGED:"+col]+=1
        flag=o["interpolated_"+col].astype(bool)
        if flag.loc[sup.index].any(): out["SUPPLIED-FLAGGED:"+col]+=1
        filled = ~o.index.isin(sup.index) & o[col].notna().values
        if not (flag.values[filled]).all(): out["FILLED-UNFLAGGED:"+col]+=1
        if len(sup)>0 and o[col].isna().any(): out["NAN-LEFT:"+col]+=1
        if len(sup)==0 and o[col].notna().any(): out["INVENTED:"+col]+=1
    return out
if __name__=="__main__":
    tot=collections.Counter()
    with ProcessPoolExecutor(16) as ex:
        for c in ex.map(case, range(600), chunksize=8): tot.update(c)
    print(dict(tot))
