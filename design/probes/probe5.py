import warnings, traceback, time, sys, logging
logging.disable(logging.CRITICAL)
warnings.simplefilter("ignore")
import pandas as pd, numpy as np
from opendsm import eemeter as em

def synth_hourly(tz="America/Chicago", start="2018-01-01", days=365, seed=0, ghi=False):
    rng = np.random.default_rng(seed)
    idx = pd.date_range(pd.Timestamp(start, tz=tz), pd.Timestamp(start, tz=tz)+pd.Timedelta(days=days), freq="h", inclusive="left")
    doy = idx.dayofyear.values; hod = idx.hour.values; dow = idx.dayofweek.values
    T = 55 - 25*np.cos(2*np.pi*(doy-15)/365) + 8*np.sin(2*np.pi*(hod-9)/24) + rng.normal(0, 2, len(idx))
    shape = 1 + 0.5*np.sin(2*np.pi*(hod-14)/24) + 0.2*(dow>=5)
    y = shape*(1.0 + 0.05*np.maximum(50-T,0) + 0.04*np.maximum(T-68,0))
    y = y*(1+rng.normal(0,0.05,len(idx)))
    df = pd.DataFrame({"temperature":T, "observed":y}, index=idx)
    if ghi:
        df["ghi"] = np.maximum(0, 800*np.sin(np.pi*(hod-6)/12))*(0.6+0.4*np.sin(2*np.pi*(doy-80)/365))
        df["observed"] -= df["ghi"]/1000
    return df

df = synth_hourly()
try:
    t=time.time(); bd = em.HourlyBaselineData(df, is_electricity_data=True); print("hourly data", time.time()-t, bd.disqualification, bd.warnings)
    t=time.time(); m = em.HourlyModel(settings=dict(seed=1)).fit(bd); print("hourly fit", time.time()-t)
    rd = em.HourlyReportingData(synth_hourly(start="2019-01-01", seed=1), is_electricity_data=True)
    t=time.time(); p = m.predict(rd); print("predict", time.time()-t); print(p.head(3))
    js = m.to_json(); m2 = em.HourlyModel.from_json(js); p2 = m2.predict(rd); print("rt identical", p.equals(p2), (p.predicted-p2.predicted).abs().max(), m2.to_json()==js)
except Exception: traceback.print_exc()
print("rt pred identical", p.equals(p2), (p.predicted-p2.predicted).abs().max())
# C02: predict changes model?
js_after = m.to_json()
print("to_json unchanged after predict:", js_after == js)
import json
d0=json.loads(js); d1=json.loads(js_after)
for k in d0:
    if d0[k]!=d1[k]: print("  differs:", k, str(d0[k])[:200], "->", str(d1[k])[:200])
# predict on one-week reporting then full year
m3 = em.HourlyModel.from_json(js)
week = synth_hourly(start="2019-03-04", days=7, seed=2)
pw = m3.predict(em.HourlyReportingData(week, is_electricity_data=True))
p3 = m3.predict(rd)
print("history-independence:", p3.predicted.equals(p.predicted), (p3.predicted-p.predicted).abs().max())
# no-observed reporting
rd_noobs = em.HourlyReportingData(synth_hourly(start="2019-01-01", seed=1).drop(columns="observed"), is_electricity_data=True)
try:
    m4 = em.HourlyModel.from_json(js)
    p4 = m4.predict(rd_noobs); print("noobs predict ok", p4.predicted.equals(p.predicted), (p4.predicted-p.predicted).abs().max(), len(p4), len(p))
except Exception: traceback.print_exc()
