import warnings, traceback, time, sys, logging
logging.disable(logging.CRITICAL)
warnings.simplefilter("ignore")
import pandas as pd, numpy as np
from opendsm import eemeter as em
src=open('/tmp/probe5.py').read()
exec(src[src.index("def synth_hourly"):src.index("df = synth_hourly()")])
df = synth_hourly(tz="UTC")
try:
    t=time.time(); bd = em.HourlyCaltrackBaselineData(df.copy(), is_electricity_data=True); print("ct data", time.time()-t, bd.disqualification, bd.warnings)
    t=time.time(); m = em.HourlyCaltrackModel().fit(bd); print("ct fit", time.time()-t)
    rd = em.HourlyCaltrackReportingData(synth_hourly(tz="UTC", start="2019-01-01", seed=1), is_electricity_data=True)
    t=time.time(); p = m.predict(rd); print("predict", time.time()-t); print(p.head(3))
    js = m.to_json(); m2 = em.HourlyCaltrackModel.from_json(js); p2 = m2.predict(rd); print("rt identical", p.equals(p2), (p.predicted-p2.predicted).abs().max()); print(p2.head(3)); print(m2.to_json()==js)
except Exception: traceback.print_exc()
