import warnings, traceback
import pandas as pd, numpy as np
import opendsm
from opendsm import eemeter as em
print(dir(em))
df_b, df_r = em.load_test_data("daily_treatment_data") if hasattr(em,'load_test_data') else (None,None)
