import warnings, logging, json, sys, hashlib
logging.disable(logging.CRITICAL); warnings.simplefilter("ignore")
import pandas as pd, numpy as np
from opendsm import eemeter as em
src=open('/tmp/probe3.py').read(); exec(src[src.index("def synth_daily"):src.index("df = synth_daily()")])
src=open('/tmp/probe5.py').read(); exec(src[src.index("def synth_hourly"):src.index("df = synth_hourly()")])
mode=sys.argv[1]
if mode=="warm":
    np.random.seed(123)
    for s in (5,6):
        em.DailyModel().fit(em.DailyBaselineData(synth_daily(seed=s), is_electricity_data=True))
    em.HourlyModel(settings=dict(seed=9)).fit(em.HourlyBaselineData(synth_hourly(seed=4, days=200), is_electricity_data=True), ignore_disqualification=True)
m = em.DailyModel().fit(em.DailyBaselineData(synth_daily(seed=1), is_electricity_data=True))
h = em.HourlyModel(settings=dict(seed=1)).fit(em.HourlyBaselineData(synth_hourly(seed=1), is_electricity_data=True))
print(mode, hashlib.sha256(m.to_json().encode()).hexdigest()[:16], hashlib.sha256(h.to_json().encode()).hexdigest()[:16])
