import warnings, traceback
import pandas as pd, numpy as np
from opendsm import eemeter as em
from opendsm.eemeter.samples import load_sample, samples
print(samples())
meter, temp, meta = load_sample("il-electricity-cdd-hdd-daily")
print(meter.head(), temp.head(), meta)
from opendsm.eemeter.common.transform import get_baseline_data, get_reporting_data
b, w = get_baseline_data(meter, end=meta["blackout_start_date"], max_days=365)
print(b.shape, b.index[0], b.index[-1], b.index.freq, b.index.dtype)
try:
    bd = em.DailyBaselineData.from_series(b, temp, is_electricity_data=True)
    print(bd.df.head()); print(bd.warnings, bd.disqualification)
    m = em.DailyModel().fit(bd)
    print(m.to_json()[:500])
except Exception:
    traceback.print_exc()
