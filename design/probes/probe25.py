import warnings, logging, sys, os, hashlib
logging.disable(logging.CRITICAL); warnings.simplefilter("ignore")
import numpy as np
from opendsm.eemeter.models.daily.base_models.full_model import full_model
T=np.linspace(-60,140,4001)
y1=full_model(52.0,1.5,3.7,68.0,0.8,2.2,20.0,np.array([10.,95.]),T)
y2=full_model(52.0,1.5,0.0,68.0,0.8,0.0,20.0,np.array([10.,95.]),T)
np.save(f"/tmp/fm_{sys.argv[1]}.npy", np.vstack([y1,y2]))
