import warnings, traceback, time, sys, logging, json
logging.disable(logging.CRITICAL)
warnings.simplefilter("ignore")
import pandas as pd, numpy as np
from opendsm import eemeter as em
from concurrent.futures import ProcessPoolExecutor
def synth(seed):
    rng = np.random.default_rng(seed)
    tz = rng.choice(["America/Chicago","UTC","Europe/London","Australia/Sydney"])
    n = int(rng.integers(330,366))
    idx = pd.date_range("2018-01-01", periods=n, freq="D", tz=tz)
    doy = idx.dayofyear.values
    amp = rng.uniform(10,30); mean = rng.uniform(40,70)
    T = mean - amp*np.cos(2*np.pi*(doy-15)/365) + rng.normal(0, rng.uniform(2,8), n)
    kind = rng.choice(["both","heat","cool","flat","wk","season"])
    base = rng.uniform(5,50); hb=rng.uniform(45,58); cb=rng.uniform(64,75); hs=rng.uniform(0.3,3); cs=rng.uniform(0.3,3)
    y = np.full(n, base)
    if kind in ("both","heat","wk","season"): y = y + hs*np.maximum(hb-T,0)
    if kind in ("both","cool","wk","season"): y = y + cs*np.maximum(T-cb,0)
    if kind=="wk": y = y*np.where(idx.dayofweek>=5, 0.5, 1.0)
    if kind=="season": y = y*np.where(np.isin(idx.month,[6,7,8,9]), 1.8, 1.0)
    y = y*(1+rng.normal(0,rng.choice([0.01,0.05,0.2]),n))
    if rng.random()<0.3:
        k = rng.integers(0,n,5); y[k]*=5
    return pd.DataFrame({"temperature":T,"observed":y}, index=idx), kind
def work(seed):
    df, kind = synth(seed)
    out=[]
    try:
        bd = em.DailyBaselineData(df, is_electricity_data=True)
        m = em.DailyModel().fit(bd, ignore_disqualification=True)
        for name, comp in list(m.fit_components.items())+[("final:"+k,v) for k,v in m.model.items()]:
            ev = comp.eval(comp.T)[0]
            d = np.max(np.abs(ev-comp.model))
            scale = np.max(np.abs(comp.model))
            out.append((seed, kind, name, comp.model_name, float(d/scale), [float(v) for v in comp.x]))
        return out, m.best_combination
    except Exception as e:
        return [(seed, kind, "EXC", repr(e)[:200], 0, [])], None
if __name__=="__main__":
    with ProcessPoolExecutor(16) as ex:
        res = list(ex.map(work, range(64)))
    bad=0; tot=0; combos={}
    for r,bc in res:
        combos[bc]=combos.get(bc,0)+1
        for x in r:
            tot+=1
            if x[2]=="EXC": print(x)
            elif x[4]>1e-9: bad+=1; print("MISMATCH", x)
    print(tot, bad, combos)
