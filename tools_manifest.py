#!/usr/bin/env python3
"""Regenerates MANIFEST.json from the property modules that exist (keeps it valid at all times)."""
import importlib, json, os, sys
ROOT = os.path.dirname(os.path.abspath(__file__))
sys.path.insert(0, ROOT)
props = [json.loads(l) for l in open(os.path.join(ROOT, "properties.jsonl"))]
checks, na = [], []
for p in props:
    pid = p["id"]
    path = os.path.join(ROOT, "vf", "props", pid + ".py")
    if not os.path.exists(path):
        na.append({"property_id": pid, "reason": "check not built yet (planned, see DESIGN.md section 3 %s); nothing is claimed for it" % pid})
        continue
    src = open(path).read()
    def const(name, default=""):
        import ast
        for node in ast.parse(src).body:
            if isinstance(node, ast.Assign) and getattr(node.targets[0], "id", None) == name:
                try:
                    return ast.literal_eval(node.value)
                except Exception:
                    return default
        return default
    checks.append({
        "property_id": pid,
        "quick_cmd": "./check %s --tier quick" % pid,
        "thorough_cmd": "./check %s --tier thorough" % pid,
        "evidence_file": "evidence/%s.json" % pid,
        "replay_cmd_template": "./check %s --replay {path}" % pid,
        "engine": "vf-runtime-monitor",
        "level_claimed": {"category": const("LEVEL", "exploration"),
                          "text": const("LEVEL_TEXT", "") or ("Runtime monitoring: the real functions run under generated/hostile workloads while monitors written from the property statement watch every execution; held means held on the executions listed in the evidence file, nothing more."),
                          "design_ref": "DESIGN.md section 3, " + pid},
        "level_note": const("LEVEL_NOTE", "") or "Trusted: the oracle/reference in vf/props/%s.py (written from the statement), pandas/numpy, the workload generators; says nothing about inputs the workload never drives." % pid,
        "technique": const("TECHNIQUE", "") or "runtime monitoring: contracts/monitors on the real functions under generated workloads",
    })
man = {
    "version": 1,
    "setup_cmd": "./setup.sh",
    "hooks": {"guard": "OPENDSM_EEMETER_VERIF", "enable": "no source hooks: all monitors are attached from outside at import time (wrappers, icontract decorators, sys.monitoring); the guard name is reserved but unused",
              "baseline_off_cmd": "cd /repo && /venv/bin/python -m pytest -ra -q -p no:cacheprovider --timeout=900 --continue-on-collection-errors",
              "source_commits": [], "add_only": True},
    "engines": [{"name": "vf-runtime-monitor", "path": "vf/", "serves_properties": [c["property_id"] for c in checks],
                 "kind_free_text": "runtime monitoring of the real code: recording wrappers, icontract contracts, sys.monitoring hooks, deep state fingerprints, independent reference oracles; sharded over worker subprocesses"}],
    "checks": checks,
    "notes": "Verdicts are three-valued: exit 0 held on what was observed, exit 1 VIOLATION, exit 2 INCONCLUSIVE (deciding monitor not reached / worker died).  known_findings.json lists genuine defects that are recorded rather than repaired; fix: commits in /repo are listed there as fixed.",
    "not_applicable": na,
}
json.dump(man, open(os.path.join(ROOT, "MANIFEST.json"), "w"), indent=1)
try:
    sys.path.append(os.path.join(ROOT, ".deps")); import jsonschema
    jsonschema.validate(man, json.load(open("/root/.vp/MANIFEST.schema.json"))); print("MANIFEST valid; checks:", len(checks), "n/a:", len(na))
except ImportError:
    print("written (jsonschema not importable)")
