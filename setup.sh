#!/bin/bash
# Offline setup: helper wheels into .deps, numba kernels of /repo's current tree compiled into .cache
set -e
cd "$(dirname "$0")"
export PIP_NO_INDEX=1 PYTHONHASHSEED=0
/venv/bin/python -m vf.boot
NUMBA_CACHE_DIR="$PWD/.cache/numba" OMP_NUM_THREADS=1 PYTHONPATH="$PWD" /venv/bin/python -m vf.warm
echo "setup ok"
