#!/bin/bash
# ./tools_intake.sh <round-dir e.g. /tmp/wt6_out> <suffix e.g. f> <ID...>: copy an agent's deliverables to seeded/<ID>_<suffix>/ and run the property's quick check on it
cd "$(dirname "$0")"
out=$1; suf=$2; shift 2
for id in "$@"; do
  d=seeded/${id}_$suf; mkdir -p $d
  cp $out/$id/patch.diff $out/$id/meta.json $d/ && cp $out/$id/demo.py $d/
  ./tools_seeded.sh ${id}_$suf quick
done
