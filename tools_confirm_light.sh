#!/bin/bash
# ./tools_confirm_light.sh <seeded-name> <agent-output-dir>: confirmation of a seeded change without re-running the repository's suite:
#   demo on the unchanged /repo (must exit 0), demo on a patched scratch worktree (must exit != 0), and the junit.xml of the full-suite
#   run the sub-agent made WITH the change compared against the 208 stable tests of BASELINE.json.  Writes seeded/<name>/confirm.json
cd "$(dirname "$0")"
name=$1; out=$2; dir=seeded/$name; wt=/tmp/vf_confirm_$name
demo=$(ls $dir/demo* | head -1)
(cd /repo && timeout 900 /venv/bin/python $OLDPWD/$demo > /tmp/vf_confirm_${name}_orig.log 2>&1); o=$?
git -C /repo worktree remove --force $wt >/dev/null 2>&1; rm -rf $wt
git -C /repo worktree add -q --detach $wt HEAD && git -C $wt apply $PWD/$dir/patch.diff || { echo "$name: cannot apply"; exit 3; }
(cd $wt && PYTHONPATH=$wt timeout 900 /venv/bin/python $OLDPWD/$demo > /tmp/vf_confirm_${name}_mut.log 2>&1); m=$?
git -C /repo worktree remove --force $wt
python3 - "$name" "$o" "$m" "$out/junit.xml" <<'PY'
import json,sys,os,xml.etree.ElementTree as ET
name,o,m,jx=sys.argv[1],int(sys.argv[2]),int(sys.argv[3]),sys.argv[4]
base=json.load(open("/root/.vp/BASELINE.json"))
missing=None; npass=None
if os.path.exists(jx):
    passed=set()
    for tc in ET.parse(jx).getroot().iter("testcase"):
        if not any(ch.tag in ("failure","error","skipped") for ch in tc): passed.add(tc.get("classname")+"::"+tc.get("name"))
    missing=[t for t in base["stable_pass"] if t not in passed]; npass=len(passed)
res={"demo_exit_on_unchanged_repo":o,"demo_exit_with_change":m,"suite":"junit.xml of the sub-agent's full-suite run with the change applied (not re-run by me)",
     "stable_tests_missing_with_change":missing,"tests_passed_with_change":npass,"confirmed":bool(o==0 and m!=0 and missing==[])}
json.dump(res,open("/verif/seeded/%s/confirm.json"%name,"w"),indent=1)
print(name,res["confirmed"],"orig",o,"mut",m,"missing",None if missing is None else len(missing))
PY
