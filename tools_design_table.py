#!/usr/bin/env python3
"""Regenerates the table of DESIGN.md section 6.5 from seeded/*/meta.json (between the BEGIN/END markers)."""
import glob
import json
import os
import re

ROOT = os.path.dirname(os.path.abspath(__file__))
rows = ["| seeded | property | what the change does | what it needs to manifest | result |", "|---|---|---|---|---|"]
n_first = n_total = 0
for p in sorted(glob.glob(os.path.join(ROOT, "seeded", "*", "meta.json"))):
    name = os.path.basename(os.path.dirname(p))
    m = json.load(open(p))
    v = m.get("verif", {})
    clean = lambda t, n: re.sub(r"\s+", " ", str(t)).replace("|", "/")[:n]
    conf = os.path.join(os.path.dirname(p), "confirm.json")
    ok = ""
    if os.path.exists(conf):
        c = json.load(open(conf))
        ok = " (re-confirmed)" if c.get("confirmed", c.get("ok")) else " (NOT re-confirmed)"
    res = clean(v.get("result", "not run"), 420)
    n_total += 1
    n_first += res.startswith("caught")
    rows.append("| %s | %s | %s | %s | %s%s |" % (name, m.get("property"), clean(m.get("summary", ""), 230), clean(m.get("needs_to_manifest", ""), 200), res, ok))
rows.append("")
rows.append("%d seeded changes; %d were caught by the checks as they stood when the change arrived, %d were missed first and are caught "
            "after the strengthening described in their row (every one re-run with `tools_seeded.sh`)." % (n_total, n_first, n_total - n_first))
p = os.path.join(ROOT, "DESIGN.md")
s = open(p).read()
a, b = "<!-- BEGIN seeded table -->", "<!-- END seeded table -->"
s = s[:s.index(a) + len(a)] + "\n" + "\n".join(rows) + "\n" + s[s.index(b):]
# ---- section 6.6: per-property summary generated from the modules ---------------------------------------------
import importlib, sys
sys.path.insert(0, ROOT)
kf = json.load(open(os.path.join(ROOT, "known_findings.json")))
lines = []
for i in range(1, 21):
    pid = "C%02d" % i
    m = importlib.import_module("vf.props." + pid)
    req = dict(getattr(m, "REQUIRED_REACH", {}))
    thor = dict(getattr(m, "REQUIRED_REACH_THOROUGH", {}))
    nopen = sum(1 for f in kf["findings"] if f["property"] == pid and f.get("status") == "open")
    nfix = sum(1 for f in kf["fixed"] if "property=%s " % pid in f)
    lines.append("**%s** — %s" % (pid, getattr(m, "TECHNIQUE", "")))
    lines.append("")
    lines.append("* explored: %s" % re.sub(r"\s+", " ", getattr(m, "RULE", "")))
    lines.append("* deciding monitors that must be reached (counter >= minimum; otherwise INCONCLUSIVE): %s%s" % (
        ", ".join("`%s`>=%d" % kv for kv in req.items()), ("; thorough also: " + ", ".join("`%s`>=%d" % kv for kv in thor.items())) if thor else ""))
    lines.append("* assumptions: %s" % "; ".join(getattr(m, "ASSUMPTIONS", [])))
    lines.append("* recorded findings open: %d, repaired defects: %d" % (nopen, nfix))
    lines.append("")
a2, b2 = "<!-- BEGIN checks summary -->", "<!-- END checks summary -->"
if a2 in s:
    s = s[:s.index(a2) + len(a2)] + "\n" + "\n".join(lines) + "\n" + s[s.index(b2):]
open(p, "w").write(s)
print(n_total, n_first)
