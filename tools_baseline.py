#!/usr/bin/env python3
"""Runs the repository's own test suite (no guard exists: there are no source hooks) and compares with
the stable-pass list of /root/.vp/BASELINE.json.  Exit 0 iff every stable test still passes."""
import json, subprocess, sys, xml.etree.ElementTree as ET
out = "/tmp/vf_baseline_junit.xml"
subprocess.run("cd /repo && /venv/bin/python -m pytest -ra -q -p no:cacheprovider --timeout=900 --continue-on-collection-errors --junitxml=%s" % out,
               shell=True, stdout=subprocess.DEVNULL, stderr=subprocess.DEVNULL)
base = json.load(open("/root/.vp/BASELINE.json"))
passed = set()
for tc in ET.parse(out).getroot().iter("testcase"):
    if not any(ch.tag in ("failure", "error", "skipped") for ch in tc):
        passed.add(tc.get("classname") + "::" + tc.get("name"))
missing = [t for t in base["stable_pass"] if t not in passed]
print("passed %d; stable %d; stable tests no longer passing: %d" % (len(passed), len(base["stable_pass"]), len(missing)))
for t in missing[:20]:
    print("  ", t)
sys.exit(1 if missing else 0)
