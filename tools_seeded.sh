#!/bin/bash
# ./tools_seeded.sh <seeded-dir-name> [tier] [check ids...]
# Applies seeded/<name>/patch.diff to a scratch worktree of /repo (outside /repo and /verif), runs the demonstration and the
# check(s) of the property it breaks against that copy (VERIF_REPO), prints the verdicts, removes the worktree.
cd "$(dirname "$0")"
name=$1; tier=${2:-quick}; shift 2 2>/dev/null
dir=seeded/$name
prop=$(python3 -c "import json;print(json.load(open('$dir/meta.json'))['property'])")
ids=${@:-$prop}
wt=/tmp/vf_seeded_$name
git -C /repo worktree remove --force $wt >/dev/null 2>&1; rm -rf $wt
git -C /repo worktree add -q --detach $wt HEAD || exit 3
if ! git -C $wt apply $PWD/$dir/patch.diff; then echo "$name: patch does not apply"; git -C /repo worktree remove --force $wt; exit 3; fi
demo=$(ls $dir/demo* 2>/dev/null | head -1)
if [ -n "$demo" ]; then
  (cd $wt && PYTHONPATH=$wt timeout 600 /venv/bin/python $OLDPWD/$demo >/tmp/vf_seeded_demo_$name.log 2>&1); echo "$name demo-with-change exit=$?"
fi
for id in $ids; do
  VERIF_REPO=$wt ./check $id --tier $tier > /tmp/vf_seeded_${name}_$id.log 2>&1; rc=$?
  echo "$name check=$id tier=$tier exit=$rc $(grep -E 'violation mechanism|INCONCLUSIVE' /tmp/vf_seeded_${name}_$id.log | head -3 | cut -c1-160 | tr '\n' ' ')"
done
git -C /repo worktree remove --force $wt
