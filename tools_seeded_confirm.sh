#!/bin/bash
# ./tools_seeded_confirm.sh <seeded-dir-name>: independent confirmation of a seeded change:
#   demo on the unchanged /repo (must exit 0), demo on a patched scratch worktree (must exit != 0),
#   repository's own suite on the patched worktree vs the 208 stable tests (must all pass).  Writes seeded/<name>/confirm.json
cd "$(dirname "$0")"
name=$1; dir=seeded/$name; wt=/tmp/vf_confirm_$name
demo=$(ls $dir/demo* | head -1)
(cd /repo && timeout 900 /venv/bin/python $OLDPWD/$demo > /tmp/vf_confirm_${name}_orig.log 2>&1); o=$?
git -C /repo worktree remove --force $wt >/dev/null 2>&1; rm -rf $wt
git -C /repo worktree add -q --detach $wt HEAD && git -C $wt apply $PWD/$dir/patch.diff || { echo "$name: cannot apply"; exit 3; }
(cd $wt && PYTHONPATH=$wt timeout 900 /venv/bin/python $OLDPWD/$demo > /tmp/vf_confirm_${name}_mut.log 2>&1); m=$?
(cd $wt && PYTHONPATH=$wt /venv/bin/python -m pytest -q -p no:cacheprovider --no-cov -n 6 --timeout=900 --continue-on-collection-errors --junitxml=/tmp/vf_confirm_${name}.xml > /tmp/vf_confirm_${name}_pytest.log 2>&1)
python3 - "$name" "$o" "$m" <<'PY'
import json,sys,xml.etree.ElementTree as ET
name,o,m=sys.argv[1],int(sys.argv[2]),int(sys.argv[3])
base=json.load(open("/root/.vp/BASELINE.json"))
passed=set()
for tc in ET.parse("/tmp/vf_confirm_%s.xml"%name).getroot().iter("testcase"):
    if not any(ch.tag in ("failure","error","skipped") for ch in tc): passed.add(tc.get("classname")+"::"+tc.get("name"))
missing=[t for t in base["stable_pass"] if t not in passed]
res={"demo_exit_on_unchanged_repo":o,"demo_exit_with_change":m,"stable_tests_missing_with_change":missing,"tests_passed_with_change":len(passed),
     "confirmed":bool(o==0 and m!=0 and not missing)}
json.dump(res,open("/verif/seeded/%s/confirm.json"%name,"w"),indent=1)
print(name,res["confirmed"],"orig",o,"mut",m,"missing",len(missing))
PY
git -C /repo worktree remove --force $wt
