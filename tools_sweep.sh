#!/bin/bash
# ./tools_sweep.sh <tier> <seed> [ids...]  -> one line per check: id exit wall verdict
cd "$(dirname "$0")"
tier=${1:-quick}; seed=${2:-0}; shift 2
ids=${@:-C01 C02 C03 C04 C05 C06 C07 C08 C09 C10 C11 C12 C13 C14 C15 C16 C17 C18 C19 C20}
mkdir -p /tmp/vf_sweep
for id in $ids; do
  s=$(date +%s)
  VERIF_SEED=$seed ./check $id --tier $tier > /tmp/vf_sweep/${id}_${tier}_${seed}.log 2>&1; rc=$?
  e=$(date +%s)
  echo "$id tier=$tier seed=$seed exit=$rc wall=$((e-s))s $(grep -E 'held on what|INCONCLUSIVE|^VIOLATION' /tmp/vf_sweep/${id}_${tier}_${seed}.log | head -1 | cut -c1-150)"
done
