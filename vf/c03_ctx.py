"""C03 context runner: fits the dataset described by a spec in THIS process (after optional warm-up /
perturbation described by the context) and prints one JSON line with the digests."""
import hashlib
import json
import os
import sys
import warnings
import logging

warnings.simplefilter("ignore")
logging.disable(logging.CRITICAL)

import numpy as np
import pandas as pd


def build(spec):
    from vf import fits as FT
    from vf.gen import rng_for
    fam = FT.Family(spec["family"])
    rng = rng_for(spec["dseed"], "C03", spec["n"])
    bdf = fam.baseline_frame(rng, tz=spec["tz"], days=365, start="2018-01-01", noise=spec.get("noise", 0.05))
    rdf = fam.reporting_frame(rng, spec["tz"], "2019-02-01", 200, with_observed=True)
    return fam, bdf, rdf


def digest_fit(spec, fam, bdf, rdf, reuse=None, later=None):
    from vf import instrument as I
    inp = I.digest(bdf) + I.digest(rdf)
    data = fam.baseline_data(bdf.copy(deep=True))
    m = fam.new_model(seed=spec["mseed"])
    if reuse is not None:
        # the model object was used for another meter before (fit + predict)
        try:
            fam.fit(m, fam.baseline_data(reuse[0].copy(deep=True)))
            fam.predict(m, fam.reporting_data(reuse[1].copy(deep=True)))
        except Exception:
            pass            # the other meter's own failure is not judged here (a meter the family cannot fit at all: C04's business)
    try:
        m = fam.fit(m, data)
        if later is not None:
            # the fitted model is kept while other meters of the family are fitted and used (a batch fitted first and dumped afterwards):
            # what is serialised and predicted later is still this fit
            for b2, r2 in later:
                try:
                    m2 = fam.fit(fam.new_model(seed=spec["mseed"] + 1), fam.baseline_data(b2.copy(deep=True)))
                    fam.predict(m2, fam.reporting_data(r2.copy(deep=True)))
                except Exception:
                    pass
        js = m.to_json()
        p = fam.predict(m, fam.reporting_data(rdf.copy(deep=True)))
        pb = fam.predict(m, data) if fam.kind != "caltrack" else p
    except Exception as e:
        # an outcome like any other: the same fit must raise the same thing in every context
        tag = "RAISED:%s" % type(e).__name__
        return dict(input=inp, json=tag, pred=tag, pred_baseline=tag, json_len=0, raised="%s: %s" % (type(e).__name__, str(e)[:200]))
    return dict(input=inp, json=hashlib.sha1(js.encode()).hexdigest(), pred=I.digest(p), pred_baseline=I.digest(pb), json_len=len(js))


def main():
    spec = json.loads(sys.argv[1])
    ctx = json.loads(sys.argv[2])
    fam, bdf, rdf = build(spec)
    rng = np.random.default_rng(ctx.get("ctx_seed", 0))
    if ctx.get("warm"):
        # unrelated use of the library beforehand, in random order
        from vf import fits as FT
        others = ["daily:current", "hourly:default", "billing", "daily:legacy"]
        rng.shuffle(others)
        others = others[: ctx["warm"]]
        if ctx.get("other_configurations"):
            # the same family used with OTHER configurations first (supplemental columns, other bins/scaler, custom maps, developer profiles)
            others = {"hourly": ["hourly:supp", "hourly:bins8:ghi", "hourly:robust"], "daily": ["daily:custom-maps", "daily:legacy-dev-splits", "daily:dev-alpha-all"],
                      "billing": ["daily:custom-maps", "billing", "daily:legacy-dev-splits"], "caltrack": ["hourly:supp", "caltrack"]}[fam.kind]
        for o in others:
            f2 = FT.Family(o)
            b2 = f2.baseline_frame(rng, tz="UTC", days=365 if f2.kind != "hourly" else 135)
            try:
                m2 = f2.fit(f2.new_model(seed=int(rng.integers(0, 1000))), f2.baseline_data(b2))
                f2.predict(m2, f2.reporting_data(f2.reporting_frame(rng, "UTC", "2019-01-01", 30)))
            except Exception:
                pass            # the unrelated meter's own failure is not judged here; the target fit below is
    if ctx.get("perturb_rng"):
        import random
        np.random.seed(int(rng.integers(0, 2 ** 31)))
        np.random.random(int(rng.integers(1, 100)))
        random.seed(int(rng.integers(0, 2 ** 31)))
    for j in range(ctx.get("near_dups", 0)):
        # a fleet holds near-duplicates (a meter re-submitted with a few corrected readings): fitting them first must not matter
        b2 = bdf.copy(deep=True)
        col = b2.columns.get_loc("observed")
        ok = np.flatnonzero(b2["observed"].notna().to_numpy())
        pick = rng.choice(ok, size=min(len(ok), 1 + j % 3), replace=False)
        mag = 10.0 ** rng.uniform(-5, -1.7)                      # a corrected reading: from a rounding fix to a 2% revision
        b2.iloc[pick, col] = b2.iloc[pick, col] * (1 + mag)
        digest_fit(spec, fam, b2, rdf)
    out = []
    batch = ctx.get("batch")
    if batch:
        # the target is fitted as part of a batch of meters, in the given order
        for item in batch:
            if item == "TARGET":
                out.append(digest_fit(spec, fam, bdf, rdf))
            else:
                s2 = dict(spec, n=spec["n"] + 1000 + item)
                f2, b2, r2 = build(s2)
                digest_fit(s2, f2, b2, r2)
    elif ctx.get("serialise_later"):
        later = []
        for k in range(2):
            f2, b2, r2 = build(dict(spec, n=spec["n"] + 7000 + k))
            if "observed" in b2.columns:
                b2["observed"] = b2["observed"] * (1.7 + k) + 2.0
            later.append((b2, r2))
        out.append(digest_fit(spec, fam, bdf, rdf, later=later))
    elif ctx.get("reuse_model_object"):
        s2 = dict(spec, n=spec["n"] + 5000)
        f2, b2, r2 = build(s2)
        if "observed" in b2.columns:
            b2["observed"] = b2["observed"] * 2.5 + 3.0
        out.append(digest_fit(spec, fam, bdf, rdf, reuse=(b2, r2)))
    else:
        for _ in range(ctx.get("repeat", 1)):
            out.append(digest_fit(spec, fam, bdf, rdf))
    print("@@C03 " + json.dumps(out))


if __name__ == "__main__":
    main()
