"""pytest plugin: runs the repository's own tests with the contracts of C18 / C20 / C16 / C08 switched on
(hundreds of realistic calls written by the maintainers).  A contract that fires here is either too strict or
a defect the tests do not assert.  Usage (from a check): python -m pytest -p vf.pytest_contracts -p no:xdist ...
Results are written to the file named by VF_CONTRACTS_OUT."""
import json
import os


def pytest_configure(config):
    from vf import boot
    boot.ensure_deps()
    from vf.props import C18, C20, C16, C08
    for m in (C18, C20, C16, C08):
        m.setup_worker()


def pytest_sessionfinish(session, exitstatus):
    from vf import instrument as I
    from vf.props import C18, C20, C16, C08
    from vf.harness import _jsonable
    out = {"reach": dict(I.REACH), "viol": {m.ID: [dict(v) for v in m.VIOL][:50] for m in (C18, C20, C16, C08)}, "exitstatus": int(exitstatus)}
    with open(os.environ.get("VF_CONTRACTS_OUT", "/tmp/vf_contracts.json"), "w") as f:
        json.dump(out, f, default=_jsonable)


def repo_tests_case(prop_id, test_files):
    """the repository's own tests, run with the contracts switched on (vf.pytest_contracts): realistic calls written by the maintainers"""
    import json, os, subprocess, tempfile
    from vf import boot
    repo = os.environ.get("VERIF_REPO") or "/repo"
    fd, out = tempfile.mkstemp(prefix="vf_contracts_", suffix=".json", dir=boot.CACHE)
    os.close(fd)
    env = boot.worker_env({"VF_CONTRACTS_OUT": out})
    env["PYTHONWARNINGS"] = "default"
    r = subprocess.run([boot.PY, "-m", "pytest", "-p", "vf.pytest_contracts", "-p", "no:xdist", "-p", "no:cacheprovider", "-o", "addopts=", "-q"] + test_files,
                       cwd=repo, env=env, capture_output=True, text=True, timeout=1500)
    try:
        res = json.load(open(out))
    finally:
        os.remove(out)
    return res
