"""Worker: reads one JSON case spec per line on stdin, runs the property's run_case on the REAL code
under its monitors, answers one '@@RESULT <json>' line on stdout.  Anything the library prints goes
to stderr so it cannot corrupt the protocol."""
import faulthandler
import json
import os
import sys
import traceback

faulthandler.enable()


def main():
    pid = sys.argv[1]
    out = os.fdopen(os.dup(1), "w", buffering=1)
    os.dup2(2, 1)            # library prints -> stderr
    sys.stdout = sys.stderr
    import warnings
    import logging
    warnings.simplefilter("ignore")
    logging.disable(logging.CRITICAL)
    from vf import boot
    boot.ensure_deps()
    import importlib
    from vf.harness import _jsonable
    try:
        mod = importlib.import_module("vf.props." + pid)
        if hasattr(mod, "setup_worker"):
            mod.setup_worker()
        boot_err = None
    except BaseException:
        boot_err = traceback.format_exc()
    for line in sys.stdin:
        line = line.strip()
        if not line:
            continue
        spec = json.loads(line)
        if boot_err:
            res = {"status": "error", "error": boot_err[-3000:]}
        else:
            try:
                warnings.simplefilter("ignore")
                res = mod.run_case(spec) or {}
                res.setdefault("status", "ok")
            except BaseException:
                # an exception escaping run_case is a harness defect or an unreachable monitor:
                # never a pass, never a violation -> inconclusive
                res = {"status": "error", "error": traceback.format_exc()[-3000:]}
        out.write("@@RESULT " + json.dumps(res, default=_jsonable) + "\n")
        out.flush()


if __name__ == "__main__":
    main()
