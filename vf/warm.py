"""Compile the repository's numba kernels once into the shared NUMBA_CACHE_DIR."""
import warnings, logging
warnings.simplefilter("ignore"); logging.disable(logging.CRITICAL)
from vf.gen import synth_daily
from opendsm import eemeter as em

bd = em.DailyBaselineData(synth_daily(seed=1), is_electricity_data=True)
em.DailyModel().fit(bd, ignore_disqualification=True)
em.DailyModel(model="legacy").fit(bd, ignore_disqualification=True)
print("warm ok")
