"""C13 — each day is predicted by exactly one sub-model: that of its season and day type.

(a) wrapper on the real DailyModel._combinations (and a sys.monitoring hook on its nested
    _trim_combinations for the effective allow flags): every candidate split is checked to be an exact
    cover of the 3x2 (season, day type) cells, the unsplit model to be present, forbidden splits absent;
    exhaustive over all 16 allow-flag combinations x gaussian reduction on/off x season/weekday maps on
    well-populated and starved data;
(b) wrapper on _combination_selection_criteria logs every candidate's criterion during real fits: the
    chosen split must be the argmin, and the criterion must be the modified BIC of (wSSE, N, #components);
(c) routing: parameter-built models for every candidate split string (and custom maps) predict every
    date of a leap and a non-leap year; model_split must be the component owning the date's cell."""
import itertools
import math

import numpy as np
import pandas as pd

from vf import instrument as I
from vf import dailybuild as B
from vf import fits as FT
from vf.gen import rng_for, synth_daily

ID = "C13"
TECHNIQUE = 'runtime monitoring: hooks on the real candidate generation/selection (exact-cover and data-availability invariants, argmin of the logged criterion; the real selection loop driven with near-tie score tables) + routing oracle over every date of two years for every split string under interleaved models of different maps'
LEVEL = "exploration"
CASE_TIMEOUT = 2400
RULE = ("candidates: all 16 allow-flag combinations x gaussian reduction on/off x season/weekday maps (default, shifted seasons, one-season map, "
        "3-day weekend, no weekend) x datasets (full year, starved season, starved weekends, half year); routing: every exact-cover split string x "
        "pairs of maps (models of two different maps are built alternately first, some through a JSON round trip, and used afterwards) x every date of 2020 and 2021; selection: real fits with weekday/season regimes.  distinct_nontrivial = distinct (flags, gaussian, map, "
        "dataset class) candidate sets with more than the unsplit model + distinct (split string, map) routed models with >= 2 components + distinct fits.")
ASSUMPTIONS = ["a split component '<fw|wd|we>-<seasons>' owns the cells (season, day type) it names; fw = both day types",
               "a single-season component needs that season's allow flag; any wd/we component needs allow_separate_weekday_weekend",
               "ties in the selection criterion may resolve to any minimal candidate"]
REQUIRED_REACH = {"selection.model_object_reused": 3, "routing.models_of_different_maps_alive_together": 40, "candidates.sets": 100, "candidates.checked": 1000, "candidates.nontrivial_sets": 30, "routing.models": 60, "routing.dates": 40000,
                  "selection.fits": 3, "selection.loop_driven_with_score_table": 80, "selection.candidates_logged": 10, "hook.trim_combinations": 50}
SEASONS = ["su", "sh", "wi"]
FULL = {"su": "summer", "sh": "shoulder", "wi": "winter"}

VIOL = []
CRIT = []
TRIM = []


def add(mech, what, **kw):
    if sum(1 for v in VIOL if v["mech"] == mech) < 3:
        VIOL.append(dict(mech=mech, what=what, **kw))


def cells_of(component):
    day, seasons = component[:2], component[3:].split("_")
    days = ["wd", "we"] if day == "fw" else [day]
    return [(s, d) for s in seasons for d in days]


def cover_problem(split):
    """None if `split` is an exact cover of the six cells, else a description"""
    seen = {}
    for comp in split.split("__"):
        if len(comp) < 5 or comp[:2] not in ("fw", "wd", "we") or comp[2] != "-" or any(s not in SEASONS for s in comp[3:].split("_")):
            return "malformed component %r" % comp
        for c in cells_of(comp):
            seen[c] = seen.get(c, 0) + 1
    missing = [c for c in itertools.product(SEASONS, ["wd", "we"]) if c not in seen]
    double = [c for c, n in seen.items() if n > 1]
    if missing or double:
        return "cells missing %s, cells covered twice %s" % (missing, double)
    return None


def comb_post(ctx, a, k, res, exc):
    if exc is not None:
        return
    self = a[0]
    I.reach("candidates.sets")
    st = self.settings.split_selection
    flags = dict(su=st.allow_separate_summer, sh=st.allow_separate_shoulder, wi=st.allow_separate_winter, wdwe=st.allow_separate_weekday_weekend)
    if "fw-su_sh_wi" not in res:
        add("unsplit-model-not-a-candidate", "the unsplit model is not among the %d candidates" % len(res), flags=flags)
    if len(set(res)) != len(res):
        add("duplicate-candidate", "candidate list contains duplicates")
    if len(res) > 1:
        I.reach("candidates.nontrivial_sets")
    meter = self.df_meter
    for split in res:
        I.reach("candidates.checked")
        p = cover_problem(split)
        if p:
            add("candidate-not-an-exact-cover", "candidate %r: %s" % (split, p), split=split, flags=flags)
            continue
        if split == "fw-su_sh_wi":
            continue
        for comp in split.split("__"):
            seasons = comp[3:].split("_")
            if comp[:2] in ("wd", "we") and not flags["wdwe"]:
                add("forbidden-split-among-candidates:weekday_weekend", "candidate %r separates weekdays and weekends although the setting forbids it" % split, split=split, flags=flags)
            if len(seasons) == 1 and not flags[seasons[0]]:
                add("forbidden-split-among-candidates:season", "candidate %r models %s separately although the setting forbids it" % (split, FULL[seasons[0]]), split=split, flags=flags)
            # the data must support every component: at least one day in its cells
            days = self.combo_dictionary[comp[:2]]
            n = int((meter["season"].isin([FULL[s] for s in seasons]) & meter["day_of_week"].isin(days)).sum())
            if n == 0:
                add("candidate-component-without-data", "candidate %r has component %r with no baseline day" % (split, comp), split=split)
    CUR_SETS.append(list(res))


CUR_SETS = []


def crit_post(ctx, a, k, res, exc):
    if exc is None:
        CRIT.append((a[1] if len(a) > 1 else k.get("combination"), float(res)))


def trim_start(frame):
    I.reach("hook.trim_combinations")


_done = False


def setup_worker():
    global _done
    if _done:
        return
    import opendsm.eemeter  # noqa
    import opendsm.eemeter.models.daily.model as DM
    I.wrap(DM.DailyModel, "_combinations", post=comb_post)
    I.wrap(DM.DailyModel, "_combination_selection_criteria", post=crit_post)
    code = I.find_code(DM.DailyModel._combinations.__wrapped__ if hasattr(DM.DailyModel._combinations, "__wrapped__") else DM.DailyModel._combinations, "_trim_combinations")
    if code is not None:
        I.local_hook(code, on_start=trim_start)
    _done = True


MAPS = {
    "default": {},
    "shifted": {"season": {"march": "winter", "october": "summer", "may": "summer"}},
    "one-season": {"season": {m: "summer" for m in ["january", "february", "march", "april", "may", "june", "july", "august", "september", "october", "november", "december"]}},
    "two-season": {"season": {m: ("winter" if i in (0, 1, 2, 9, 10, 11) else "summer") for i, m in enumerate(["january", "february", "march", "april", "may", "june", "july", "august", "september", "october", "november", "december"])}},
    "weekend3": {"weekday_weekend": {"friday": "weekend"}},
    "no-weekend": {"weekday_weekend": {"saturday": "weekday", "sunday": "weekday"}},
    "midweek-weekend": {"weekday_weekend": {"saturday": "weekday", "sunday": "weekday", "wednesday": "weekend"}},
}


def dataset(rng, cls):
    if cls == "full":
        return synth_daily(tz="UTC", start="2019-03-01", n=365, seed=rng, kind="both", weekend=0.3, season=0.2)
    if cls == "half":
        return synth_daily(tz="UTC", start="2019-04-15", n=190, seed=rng, kind="both", weekend=0.3)
    if cls == "starved-winter":
        df = synth_daily(tz="UTC", start="2019-03-01", n=365, seed=rng, kind="both", weekend=0.2)
        keep = ~df.index.month.isin([11, 12, 1, 2]) | (np.arange(len(df)) % 9 == 0)
        return df[keep]
    if cls == "starved-weekends":
        df = synth_daily(tz="UTC", start="2019-03-01", n=365, seed=rng, kind="both", weekend=0.2)
        keep = (df.index.dayofweek < 5) | (np.arange(len(df)) % 35 < 2)
        return df[keep]
    if cls == "identical-regimes":
        return synth_daily(tz="UTC", start="2019-01-01", n=365, seed=rng, kind="both", noise=0.02)
    raise KeyError(cls)


def candidates_case(spec, keys):
    import opendsm.eemeter as em
    rng = rng_for(spec["seed"], ID, 1, spec["n"])
    df = dataset(rng, spec["data"])
    n = 0
    for mask in range(16):
        for gauss in (True, False):
            ss = dict(allow_separate_summer=bool(mask & 1), allow_separate_shoulder=bool(mask & 2), allow_separate_winter=bool(mask & 4),
                      allow_separate_weekday_weekend=bool(mask & 8), reduce_splits_by_gaussian=gauss, reduce_splits_num_std=[1.4, 0.89] if gauss else None)
            st = dict(developer_mode=True, silent_developer_mode=True, split_selection=ss, **MAPS[spec["map"]])
            m = em.DailyModel(settings=st)
            m.df_meter, _ = m._initialize_data(df.copy())
            del CUR_SETS[:]
            res = m._combinations()
            n += 1
            if len(res) > 1:
                keys.add("cand|%d|%s|%s|%s|%d" % (mask, gauss, spec["map"], spec["data"], len(res)))
    return n


def routing_case(spec, keys):
    """Models of two different (season, weekday) maps are built alternately FIRST and used afterwards, so every model is used
    after another model with another map was constructed in the same process (routing is 'under the model's own settings')."""
    import opendsm.eemeter as em
    rng = rng_for(spec["seed"], ID, 2, spec["n"])
    months = ["january", "february", "march", "april", "may", "june", "july", "august", "september", "october", "november", "december"]
    days = ["monday", "tuesday", "wednesday", "thursday", "friday", "saturday", "sunday"]
    short = {"summer": "su", "shoulder": "sh", "winter": "wi"}
    built = []
    for j, split in enumerate(spec["splits"]):
        mp = spec["map"] if j % 2 == 0 else spec.get("other_map", spec["map"])
        st = B.settings_dump("current", **MAPS[mp]) if MAPS[mp] else B.settings_dump("current")
        subs = {}
        for jj, comp in enumerate(split.split("__")):
            tc = dict(T_min=0.0, T_max=100.0, T_min_seg=10.0, T_max_seg=90.0)
            subs[comp] = dict(coefficients=dict(B.NONE, model_type="tidd", intercept=100.0 * (jj + 1)), temperature_constraints=tc, f_unc=1.0)
        m = em.DailyModel.from_dict(B.make_doc(subs, st, tz=spec["tz"]))
        if j % 3 == 2:
            m = em.DailyModel.from_json(m.to_json())            # a stored model routes like the one it was stored from
        built.append((split, mp, st, subs, m))
    if len(set(b[1] for b in built)) > 1:
        I.reach("routing.models_of_different_maps_alive_together", len(built))
    n = 0
    for split, mp, st, subs, m in built:
        season_of = {i + 1: st["season"][mm] for i, mm in enumerate(months)}
        daytype_of = {i: ("wd" if st["weekday_weekend"][d] == "weekday" else "we") for i, d in enumerate(days)}
        owner = {}
        for comp in split.split("__"):
            for c in cells_of(comp):
                owner[c] = comp
        I.reach("routing.models")
        for year in (2020, 2021):
            idx = pd.date_range(pd.Timestamp("%d-01-01" % year, tz=spec["tz"]), pd.Timestamp("%d-12-31" % year, tz=spec["tz"]), freq="D")
            T = np.round(rng.uniform(20, 90, len(idx)), 1)
            p = m.predict(em.DailyReportingData(pd.DataFrame({"temperature": T}, index=idx), is_electricity_data=True))
            I.reach("routing.dates", len(idx))
            if len(p) != len(idx) or p.index.has_duplicates or not p.index.equals(idx):
                missing = len(idx.difference(p.index))
                dup = int(p.index.duplicated().sum())
                add("date-predicted-zero-or-two-times", "split %r (%s map): %d dates are not predicted and %d dates are predicted more than once in %d" % (split, mp, missing, dup, year),
                    split=split, map=mp)
                continue
            for ts, got, val in zip(idx, p["model_split"].tolist(), p["predicted"].tolist()):
                cell = (short[season_of[ts.month]], daytype_of[ts.dayofweek])
                exp = owner[cell]
                if got != exp:
                    add("date-routed-to-wrong-submodel", "%s (%s, %s) was predicted by %r, its cell belongs to %r (split %r, %s map%s)" % (
                        ts.date(), season_of[ts.month], "weekday" if cell[1] == "wd" else "weekend", got, exp, split, mp,
                        "; models with the %s map were constructed in between" % spec["other_map"] if spec.get("other_map") else ""), split=split, map=mp)
                    break
                if val != subs[exp]["coefficients"]["intercept"]:
                    add("model_split-label-disagrees-with-prediction", "%s labelled %r but predicted %r" % (ts.date(), got, val), split=split)
                    break
        if "__" in split:
            keys.add("route|%s|%s" % (split, mp))
        n += 2
    return n


def selection_case(spec, keys):
    rng = rng_for(spec["seed"], ID, 3, spec["n"])
    del CRIT[:]
    if spec.get("reused_model_object"):
        # the model object was fitted on another meter before, with a very different error scale: the selection of the second fit is its own
        import opendsm.eemeter as em
        df = FT.daily_baseline_df(rng, tz=spec["tz"], kind=spec["usage"], weekend=spec["weekend"], season=spec["season"], noise=0.05)
        df0 = FT.daily_baseline_df(rng, tz=spec["tz"], kind="both", weekend=0.0, season=0.0, noise=[0.4, 0.001][spec["n"] % 2])
        df0["observed"] = df0["observed"] * [50.0, 0.02][spec["n"] % 2]
        m = FT.make_daily_model(spec["profile"])
        m.fit(em.DailyBaselineData(df0, is_electricity_data=True), ignore_disqualification=True)
        del CRIT[:]
        data = em.DailyBaselineData(df, is_electricity_data=True)
        m = m.fit(data, ignore_disqualification=True)
        I.reach("selection.model_object_reused")
    else:
        m, data, df = FT.fit_daily(rng, profile=spec["profile"], tz=spec["tz"], kind=spec["usage"], weekend=spec["weekend"], season=spec["season"], noise=0.05)
    I.reach("selection.fits")
    logged = {}
    for combo, c in CRIT:
        logged[combo] = c
    I.reach("selection.candidates_logged", len(logged))
    cands = list(m.combinations)
    if set(logged) != set(cands):
        add("selection-did-not-score-every-candidate", "scored %d of %d candidates" % (len(logged), len(cands)))
    best = m.best_combination
    if best not in cands:
        add("chosen-split-not-a-candidate", "chosen %r is not among the candidates" % best)
    elif logged:
        lo = min(logged.values())
        if logged[best] > lo + 1e-12 * max(1.0, abs(lo)):
            arg = min(logged, key=logged.get)
            add("chosen-split-not-the-argmin", "chosen %r has criterion %.9g, candidate %r has %.9g" % (best, logged[best], arg, logged[arg]))
    # the REAL selection loop driven with hostile score tables (a stub in place of the scoring function on this one object): clear winners,
    # near ties (a later candidate lower by 1e-3 .. 1 ulp relative), slowly descending / ascending runs, exact ties, scores around 0
    if len(cands) >= 2:
        sr = np.random.default_rng([spec["seed"], 1313, spec["n"]])
        orig = m.__dict__.get("_combination_selection_criteria")
        for trial in range(40):
            base = float(sr.choice([-3.7, -0.5, 0.0, 2.0, 150.0]))
            kind = trial % 5
            if kind == 0:
                vals = base + sr.normal(0, 1, len(cands))
            elif kind == 1:
                vals = np.full(len(cands), base) + sr.normal(0, 1e-9, len(cands))
                j = int(sr.integers(1, len(cands)))
                vals[j] = vals[:j].min() - abs(vals[:j].min() if vals[:j].min() != 0 else 1.0) * float(sr.choice([1e-3, 3e-4, 1e-6, 1e-9, 1e-12]))     # later and lower by a hair
            elif kind == 2:
                step = float(sr.choice([1e-3, 1e-5, 1e-8])) * (abs(base) if base else 1.0)
                vals = base - step * np.arange(len(cands)) * (1 if trial % 2 else -1)
            elif kind == 3:
                vals = np.full(len(cands), base)
                vals[sr.choice(len(cands), size=max(1, len(cands) // 2), replace=False)] = base - 1.0           # several exact minima
            else:
                vals = np.array([np.nextafter(base, -np.inf) if i == len(cands) - 1 else base for i in range(len(cands))])         # one ulp lower, last
            table = dict(zip(cands, [float(v) for v in vals]))
            m._combination_selection_criteria = lambda combo, _t=table: _t[combo]
            try:
                got = m._best_combination()
            finally:
                if orig is None:
                    m.__dict__.pop("_combination_selection_criteria", None)
                else:
                    m._combination_selection_criteria = orig
            I.reach("selection.loop_driven_with_score_table")
            lo_ = min(table.values())
            if got not in table or table[got] != lo_:
                add("chosen-split-not-the-argmin:score-table", "score table kind %d: chose %r (%.17g), the lowest is %r (%.17g)" % (
                    kind, got, table.get(got, float("nan")), min(table, key=table.get), lo_), table_kind=kind)
                break
    if cover_problem(best):
        add("chosen-split-not-an-exact-cover", "chosen %r: %s" % (best, cover_problem(best)))
    if set(m.params.submodels.keys()) != set(best.split("__")):
        add("stored-submodels-differ-from-chosen-split", "stored %r vs chosen %r" % (sorted(m.params.submodels), best))
    # criterion = modified BIC of (wSSE, N, #components), relative to the unsplit model
    ss = m.settings.split_selection
    if str(getattr(ss.criteria, "value", ss.criteria)) == "bic":
        def wrmse(combo):
            comps = [m.fit_components[c] for c in combo.split("__")]
            return math.sqrt(sum(float(c.wSSE) for c in comps) / sum(int(c.N) for c in comps))
        base = wrmse("fw-su_sh_wi")
        for combo, got in logged.items():
            comps = combo.split("__")
            N = sum(int(m.fit_components[c].N) for c in comps)
            loss = wrmse(combo) / base
            K = len(comps)
            exp = (N * (math.log(2 * math.pi) + math.log(loss / N) + 1) + ss.penalty_multiplier * K * math.log(N) ** ss.penalty_power) / N
            if abs(exp - got) > 1e-9 * max(1.0, abs(exp)):
                add("criterion-is-not-the-modified-bic", "candidate %r: criterion %.12g, modified BIC of (wSSE, N, K) = %.12g" % (combo, got, exp))
                break
    # routing of the fitted model on its own baseline, after other models with other maps were constructed in the process
    import opendsm.eemeter as em
    em.DailyModel()
    em.BillingModel()
    em.DailyModel(settings={"weekday_weekend": {"monday": "weekend", "sunday": "weekday"}, "season": {"april": "winter"}})     # constructed LAST: a map no profile under test uses
    I.reach("selection.other_models_constructed_before_routing")
    p = m.predict(data, ignore_disqualification=True)
    st = m.settings
    for ts, got in zip(p.index, p["model_split"].tolist()):
        if not isinstance(got, str):
            continue
        season = {"summer": "su", "shoulder": "sh", "winter": "wi"}[st.season._num_dict[ts.month]]
        daytype = "wd" if st.weekday_weekend._num_dict[ts.dayofweek + 1] == "weekday" else "we"
        if (season, daytype) not in cells_of(got):
            add("date-routed-to-wrong-submodel", "fitted model: %s routed to %r" % (ts.date(), got))
            break
    keys.add("fit|%s|%s|%s|%s|%s" % (spec["profile"], spec["usage"], spec["weekend"], spec["season"], best))
    return 1, best


def gen_cases(tier, seed):
    q = tier == "quick"
    cases = []
    k = 0
    maps = list(MAPS) if not q else ["default", "shifted", "one-season", "weekend3", "no-weekend", "two-season"]
    datas = ["full", "half", "starved-winter", "starved-weekends", "identical-regimes"]
    for mp in maps:
        for d in (datas if not q else datas[:4]):
            cases.append(dict(kind="candidates", map=mp, data=d, n=k, timeout=2400))
            k += 1
    splits = B.all_split_strings()
    chunk = 12
    pairs = [("default", "weekend3"), ("shifted", "midweek-weekend")] if q else \
        [("default", "weekend3"), ("shifted", "midweek-weekend"), ("weekend3", "no-weekend"), ("midweek-weekend", "default"), ("two-season", "shifted"), ("no-weekend", "one-season")]
    for mp, other in pairs:
        for i in range(0, len(splits), chunk):
            cases.append(dict(kind="routing", map=mp, other_map=other, splits=splits[i:i + chunk], tz=["UTC", "America/Chicago", "Australia/Sydney"][(i // chunk) % 3], n=k))
            k += 1
    nf = 4 if q else 48
    for i in range(nf):
        cases.append(dict(kind="selection", profile=["current", "custom-maps", "dev-nogauss", "legacy-dev-splits"][i % 4], tz=["America/Chicago", "UTC"][i % 2],
                          usage=["both", "heating", "cooling"][i % 3], weekend=[0.4, 0.0, 0.25][i % 3], season=[0.0, 0.3, 0.15][(i // 2) % 3], n=k, timeout=2400))
        k += 1
    for i in range(4 if q else 24):
        cases.append(dict(kind="selection", profile=["current", "custom-maps", "dev-nogauss", "legacy-dev-splits"][i % 4], tz=["America/Chicago", "UTC"][i % 2],
                          usage=["both", "heating", "cooling"][i % 3], weekend=[0.4, 0.25][i % 2], season=[0.0, 0.3][(i // 2) % 2], n=k, timeout=2400, reused_model_object=True))
        k += 1
    return cases


def run_case(spec):
    del VIOL[:]
    keys = set()
    hist = {"kind": spec["kind"]}
    if spec["kind"] == "candidates":
        n = candidates_case(spec, keys)
    elif spec["kind"] == "routing":
        n = routing_case(spec, keys)
    else:
        n, best = selection_case(spec, keys)
        hist["chosen_split"] = best
    return dict(viol=[dict(v) for v in VIOL], reach=I.take_reach(), keys=sorted(keys), hist=hist, events=n)


def finalize(cases, results, tier):
    return {"exhaustive": True, "exhaustive_over": "16 allow-flag combinations x gaussian on/off x listed maps x listed dataset classes; every exact-cover split string x listed maps x all dates of 2020 and 2021"}
