"""C10 — sufficiency verdicts are exactly the published criteria.

Boundary monitor on the real data classes (daily / billing / hourly x baseline / reporting, frame and
from_series entry points): the set of disqualification names is compared with an independent
evaluation of the published criteria (vf/oracle/criteria.py, exact rational arithmetic); a wrapper on
SufficiencyCriteria.model_post_init logs the counters the class derived (for the witness)."""
import datetime as dt

import numpy as np
import pandas as pd

from vf import instrument as I
from vf.gen import rng_for, daily_weather
from vf.oracle import criteria as CR

ID = "C10"
TECHNIQUE = 'runtime monitoring: boundary monitor on the real data classes (all entry points): reported disqualification set vs an independent exact evaluation of the published criteria; hook on SufficiencyCriteria.model_post_init records the derived counters'
LEVEL = "exploration"
NEEDS_NUMBA = False
CASE_TIMEOUT = 1800
RULE = ("generated datasets: baseline/reporting x daily(frame, from_series, hourly-input)/billing/hourly classes, electric/gas, spans 250-420 days "
        "(dense at 328..330 and 364..366), k missing usage/temperature days placed at random, in one month, at the edges, with k at each "
        "threshold -1/0/+1 (exact thresholds only where every period is exactly one day: UTC and no-DST zones; DST-zone and hourly cases are "
        "judged only >= 1 day away from a fractional threshold), negative gas usage, extreme values, UTC index, off-cycle billing reads.  "
        "distinct_nontrivial = distinct (class, role, zone class, span, defect pattern, expected disqualification set) with at least one defect.")
ASSUMPTIONS = ["a day with valid temperature: daily feed = value present; hourly feed = all hours present (days are generated whole or absent)",
               "the length criterion is judged on local calendar days first..last complete row",
               "fractional day counts (DST days, hourly rows) are not judged within 1 day of a threshold: the statement does not say how they round"]
REQUIRED_REACH = {"dataset.judged": 100, "criterion.judged": 500, "criterion.expected_dq": 60, "criterion.exact_threshold": 10,
                  "warning.condition_generated": 20, "post_init.counters": 100, "class.daily": 40, "class.billing": 10, "class.hourly": 10, "entry.billing_from_series": 12,
                  "entry.billing_from_series_first_and_last_period_differ": 6, "billing.span_on_a_length_threshold": 6, "billing.day_count_compared": 10, "negative.only_on_incomplete_rows": 1, "entry.billing_class_fed_with_daily_rows": 10, "billing.period_exactly_on_a_length_limit": 6, "billing.calendar_month_without_any_reading": 6}
UNIVERSE = {"no_data", "incorrect_number_of_total_days", "too_many_days_with_missing_data", "too_many_days_with_missing_meter_data",
            "too_many_days_with_missing_temperature_data", "missing_monthly_temperature_data", "missing_monthly_meter_data",
            "missing_monthly_ghi_data", "negative_meter_values"}
FRACTIONAL = {"too_many_days_with_missing_data", "too_many_days_with_missing_meter_data", "too_many_days_with_missing_temperature_data"}

VIOL = []
COUNTERS = []


def add(mech, what, **kw):
    VIOL.append(dict(mech=mech, what=what, **kw))


def post_init_post(ctx, a, k, res, exc):
    self = a[0]
    I.reach("post_init.counters")
    COUNTERS.append(dict(n_days_total=self.n_days_total, n_valid_days=self.n_valid_days,
                         n_valid_meter_value_days=self.n_valid_meter_value_days, n_valid_temperature_days=self.n_valid_temperature_days))


_done = False


def setup_worker():
    global _done
    if _done:
        return
    import opendsm.eemeter  # noqa
    import opendsm.eemeter.common.sufficiency_criteria as SC
    I.wrap(SC.SufficiencyCriteria, "model_post_init", post=post_init_post)
    _done = True


NO_DST = ["UTC", "Asia/Kolkata", "Asia/Tokyo", "America/Phoenix", "Africa/Johannesburg", "Asia/Dubai", "Pacific/Honolulu"]
DST = ["America/Chicago", "Europe/London", "Australia/Sydney", "America/Los_Angeles", "Europe/Berlin", "Pacific/Auckland", "America/New_York"]


def local_dates(idx):
    return [(d.year, d.month, d.day) for d in idx.tz_localize(None).to_pydatetime()]


def place_gaps(rng, n, k, how, idx, protect_edges=True):
    """boolean mask of k missing rows"""
    m = np.zeros(n, bool)
    if k <= 0:
        return m
    lo, hi = (1, n - 1) if protect_edges else (0, n)
    if how == "random":
        m[rng.choice(np.arange(lo, hi), size=min(k, hi - lo), replace=False)] = True
    elif how == "one_month":
        month = int(rng.integers(1, 13))
        cand = np.flatnonzero((idx.month.values == month))
        cand = cand[(cand >= lo) & (cand < hi)]
        take = cand[:k] if len(cand) >= k else cand
        m[take] = True
        rest = k - len(take)
        if rest > 0:
            others = np.setdiff1d(np.arange(lo, hi), take)
            m[rng.choice(others, size=rest, replace=False)] = True
    elif how == "month_threshold":
        # a calendar month lying completely inside the span, with just under / just over 10% of its rows missing (k is ignored)
        ym = idx.year.values * 12 + idx.month.values
        full = [g for g in np.unique(ym) if (ym == g).sum() >= 28 and ym[0] != g and ym[-1] != g]
        if full:
            g = int(rng.choice(full))
            cand = np.flatnonzero(ym == g)
            n_m = len(cand)
            kk = int(np.floor(0.1 * n_m)) + int(rng.choice([0, 1, 1]))
            m[rng.choice(cand, size=kk, replace=False)] = True
    elif how == "run":
        a = int(rng.integers(lo, max(lo + 1, hi - k)))
        m[a:a + k] = True
    elif how in ("first_row_plus_random", "last_row_plus_random", "both_end_rows_plus_random"):
        # an incomplete FIRST / LAST row plus k-1 rows anywhere: every row's period runs up to the NEXT timestamp
        ends = [0] if how.startswith("first") else [n - 1] if how.startswith("last") else [0, n - 1]
        m[ends] = True
        rest = k - len(ends)
        if rest > 0:
            m[rng.choice(np.arange(1, n - 1), size=min(rest, n - 2), replace=False)] = True
    elif how == "leading":
        m[:k] = True
    elif how == "trailing":
        m[n - k:] = True
    return m


def threshold_k(n_rows):
    """largest k of missing (non-last) rows that is still sufficient when everything else is valid: (n-1-k) >= 0.9*span"""
    span = n_rows
    k = 0
    while (n_rows - 1 - (k + 1)) * 10 >= 9 * span:
        k += 1
    return k


def gen_dataset(rng, spec):
    fam, role, tz = spec["family"], spec["role"], spec["tz"]
    n = spec["n_days"]
    start = pd.Timestamp("2018-01-01") + pd.Timedelta(days=int(rng.integers(0, 365)))
    if "month_threshold" in (spec.get("how_temp"), spec.get("how_usage")) and rng.random() < 0.6:
        start = pd.Timestamp("2019-03-01") + pd.Timedelta(days=int(rng.integers(0, 300)))          # spans that contain the leap February of 2020
    if spec.get("start"):
        start = pd.Timestamp(spec["start"])
    idx = pd.date_range(start.tz_localize(tz), periods=n, freq="D") if fam != "x" else None
    T = np.round(daily_weather(rng, idx), 2)
    y = np.round(20 + 1.0 * np.maximum(55 - T, 0) + 0.6 * np.maximum(T - 68, 0) + rng.normal(0, 1, n), 3)
    y = np.maximum(y, 0.5)
    ku, kt = spec["k_usage"], spec["k_temp"]
    edges_ok = spec["entry"] != "series"
    mu = place_gaps(rng, n, ku, spec["how_usage"], idx, protect_edges=spec["how_usage"] not in ("leading", "trailing"))
    mt = place_gaps(rng, n, kt, spec["how_temp"], idx, protect_edges=spec["how_temp"] not in ("leading", "trailing"))
    if spec.get("same_days"):
        mt = mu.copy()
    neg = False
    if spec.get("negative"):
        cand = np.flatnonzero(~mu)
        if spec.get("negative") == "on-days-without-temperature" and (~mu & mt).any():
            # every negative reading sits on a day whose temperature is missing (an incomplete row is still a negative reading)
            cand = np.flatnonzero(~mu & mt)
            I.reach("negative.only_on_incomplete_rows")
        j = rng.choice(cand, size=min(3, len(cand)), replace=False)
        y[j] = -np.abs(y[j])
        neg = True
    if spec.get("extreme"):
        j = rng.choice(np.flatnonzero(~mu), size=2, replace=False)
        y[j] = y[j] * 200 + 500
    if spec.get("zeros"):
        cand = np.flatnonzero(~mu & (y < 400))                 # never overwrite the generated extreme values
        j = rng.choice(cand, size=min(len(cand), int(spec["zeros"])), replace=False)
        y[j] = 0.0                      # electric: zero = missing
    yy = y.copy()
    yy[mu] = np.nan
    TT = T.copy()
    TT[mt] = np.nan
    return idx, yy, TT, neg


def judge(data, exp, margins, whole_days, spec, cond_warn):
    dq = [w.qualified_name for w in data.disqualification]
    wn = [w.qualified_name for w in data.warnings]
    got = {x.split(".")[-1] for x in dq}
    I.reach("dataset.judged")
    cnt = COUNTERS[-1] if COUNTERS else {}
    tag = dict(spec={k: v for k, v in spec.items() if k not in ("seed", "tier", "i")}, counters=cnt, disqualification=sorted(got), expected=sorted(exp))
    if "no_data" in exp:
        if "no_data" not in got:
            add("no-data-not-reported", "no complete row, but no_data is not among the disqualifications", **tag)
        return
    for name in sorted(UNIVERSE):
        if name in ("no_data",):
            if name in got:
                add("spurious-disqualification:no_data", "no_data reported although complete rows exist", **tag)
            continue
        if name in FRACTIONAL and not whole_days and margins.get(name, 9) < 1.0:
            I.reach("criterion.skipped_ambiguous")
            continue
        I.reach("criterion.judged")
        if name in FRACTIONAL and whole_days and margins.get(name, 9) < 1.0:
            I.reach("criterion.exact_threshold")
        if name in exp:
            I.reach("criterion.expected_dq")
        if (name in exp) != (name in got):
            kind = "missing" if name in exp else "spurious"
            zone = (":dst-zone" if spec["tz"] in DST else ":fixed-offset-zone") if name == "incorrect_number_of_total_days" else ""
            add("%s-disqualification:%s:%s/%s:%s%s" % (kind, name, spec["family"], spec.get("entry", "frame"), spec["role"], zone),
                "%s: %s is %s (expected set %s, reported %s)" % (spec["family"] + "/" + spec["role"], name,
                                                                  "expected but not reported" if name in exp else "reported but not derived from the criteria",
                                                                  sorted(exp), sorted(got)), **tag)
    for name in sorted(got - UNIVERSE):
        add("warning-class-condition-among-disqualifications:%s" % name, "%s is reported as a disqualification" % name, **tag)
    for name in cond_warn:
        I.reach("warning.condition_generated")
        if not any(x.endswith(name) for x in wn):
            if any(x.endswith(name) for x in dq):
                continue        # already reported above
            add("warning-not-reported:%s%s" % (name, ":datetime-column-entry" if spec.get("datetime_col") else ""), "condition for warning %s was generated but it is not among the warnings %s" % (name, [x.split('.')[-1] for x in wn]), **tag)


def run_daily(spec, rng, keys):
    import opendsm.eemeter as em
    idx, y, T, neg = gen_dataset(rng, spec)
    electric = not spec.get("gas")
    role = spec["role"]
    I.reach("class.daily")
    usage_ok = np.isfinite(y) & ~((y == 0) & electric)
    temp_ok = np.isfinite(T)
    cond = []
    if spec["tz"] == "UTC":
        cond.append("utc_index")
    if spec.get("extreme") and role == "baseline":
        cond.append("extreme_values_detected")
    usage_supplied = not spec.get("no_usage")
    try:
        if spec["entry"] == "frame":
            df = pd.DataFrame({"temperature": T, "observed": y}, index=idx)
            if not usage_supplied:
                df = df.drop(columns=["observed"])
            if spec.get("datetime_col"):
                df = df.reset_index().rename(columns={"index": "datetime"})
            data = (em.DailyBaselineData if role == "baseline" else em.DailyReportingData)(df, is_electricity_data=electric)
        elif spec["entry"] == "series":
            ms = pd.Series(y, index=idx, name="value")
            ts = pd.Series(T, index=idx, name="temp")
            if role == "baseline":
                data = em.DailyBaselineData.from_series(ms, ts, is_electricity_data=electric)
            else:
                data = em.DailyReportingData.from_series(ms if usage_supplied else None, ts, is_electricity_data=electric)
        else:   # hourly input frame: whole days present or absent
            hidx = pd.date_range(idx[0], idx[-1] + pd.Timedelta(hours=23), freq="h")
            day = hidx.normalize()
            pos = idx.get_indexer(day)
            keep = pos >= 0
            hidx, pos = hidx[keep], pos[keep]
            hy = y[pos] / 24.0
            hT = T[pos] + np.round(3 * np.sin(2 * np.pi * (hidx.hour.values - 15) / 24), 2)
            df = pd.DataFrame({"temperature": hT, "observed": hy}, index=hidx)
            data = (em.DailyBaselineData if role == "baseline" else em.DailyReportingData)(df, is_electricity_data=electric)
    except Exception as e:
        import traceback
        tb = traceback.extract_tb(e.__traceback__)
        add("well-formed-input-rejected:%s:%s:%s" % (type(e).__name__, tb[-1].name, spec["entry"]),
            "%s/%s (%s entry) raised %s: %s" % (spec["family"], role, spec["entry"], type(e).__name__, str(e)[:200]),
            spec={k: v for k, v in spec.items() if k not in ("seed", "tier", "i")})
        return
    t = idx.asi8 if idx.unit == "ns" else idx.as_unit("ns").asi8
    if not usage_supplied:
        usage_ok = np.zeros(len(y), bool)
    exp, margins = CR.expected(t, local_dates(idx), usage_ok, temp_ok, role == "baseline", gas_negative=neg and not electric,
                               usage_supplied=usage_supplied)
    whole = spec["tz"] in NO_DST and spec["entry"] != "hourly"
    judge(data, exp, margins, whole, spec, cond)
    if spec["k_usage"] or spec["k_temp"] or spec.get("negative") or spec.get("extreme") or spec["n_days"] < 329 or spec["n_days"] > 365:
        keys.add("daily|%s|%s|%s|%d|%s/%d|%s/%d|%s" % (role, spec["entry"], "fixed" if spec["tz"] in NO_DST else "dst", spec["n_days"],
                                                       spec["how_usage"], spec["k_usage"], spec["how_temp"], spec["k_temp"], ",".join(sorted(exp))))


def run_hourly(spec, rng, keys):
    import opendsm.eemeter as em
    idx, y, T, neg = gen_dataset(rng, spec)
    electric = not spec.get("gas")
    role = spec["role"]
    I.reach("class.hourly")
    hidx = pd.date_range(idx[0], idx[-1] + pd.Timedelta(hours=23), freq="h")
    pos = idx.get_indexer(hidx.normalize())
    keep = pos >= 0
    hidx, pos = hidx[keep], pos[keep]
    hod = hidx.hour.values
    hy = np.round((y[pos] / 24.0) * (1 + 0.4 * np.sin(2 * np.pi * (hod - 14) / 24)), 4)
    hT = np.round(T[pos] + 4 * np.sin(2 * np.pi * (hod - 15) / 24), 2)
    df = pd.DataFrame({"temperature": hT, "observed": hy}, index=hidx)
    ghi_ok = None
    if spec.get("ghi"):
        g = np.round(np.maximum(0, 700 * np.sin(np.pi * (hod - 6) / 12)) + 0.01, 2)
        mg = place_gaps(rng, len(idx), spec.get("k_ghi", 0), "one_month", idx)
        g[mg[pos]] = np.nan
        df["ghi"] = g
        ghi_ok = np.isfinite(g)
    if spec.get("hour_gap_month"):
        # hours missing in one complete month, just under / over 10% of its hours
        ym = hidx.year.values * 12 + hidx.month.values
        full = [g for g in np.unique(ym) if (ym == g).sum() >= 28 * 24 and ym[0] != g and ym[-1] != g]
        g = int(rng.choice(full))
        cand = np.flatnonzero(ym == g)
        kk = int(np.floor(0.1 * len(cand))) + int(rng.choice([-1, 0, 1, 2, 3]))
        col = "temperature" if spec["hour_gap_month"] == "temperature" or role != "baseline" else spec["hour_gap_month"]
        sel = rng.choice(cand, size=kk, replace=False)
        if col == "temperature":
            hT[sel] = np.nan
            df["temperature"] = hT
        else:
            hy[sel] = np.nan
            df["observed"] = hy
    usage_supplied = not spec.get("no_usage")
    if not usage_supplied:
        df = df.drop(columns=["observed"])
    try:
        data = (em.HourlyBaselineData if role == "baseline" else em.HourlyReportingData)(df, is_electricity_data=electric)
    except Exception as e:
        add("well-formed-input-rejected:%s:hourly" % type(e).__name__, "hourly/%s raised %s: %s" % (role, type(e).__name__, str(e)[:200]),
            spec={k: v for k, v in spec.items() if k not in ("seed", "tier", "i")})
        return
    t = hidx.asi8 if hidx.unit == "ns" else hidx.as_unit("ns").asi8
    usage_ok = np.isfinite(hy) & ~((hy == 0) & electric) if usage_supplied else np.zeros(len(hy), bool)
    temp_ok = np.isfinite(hT)
    extra = {}
    if role == "baseline":
        extra["missing_monthly_meter_data"] = usage_ok
    if ghi_ok is not None:
        extra["missing_monthly_ghi_data"] = ghi_ok
    exp, margins = CR.expected(t, local_dates(hidx), usage_ok, temp_ok, role == "baseline", gas_negative=neg and not electric,
                               monthly_extra=extra, usage_supplied=usage_supplied)
    cond = ["utc_index"] if spec["tz"] == "UTC" else []
    judge(data, exp, margins, False, spec, cond)
    keys.add("hourly|%s|%s|%d|%d|%d|%s" % (role, spec["tz"], spec["n_days"], spec["k_usage"], spec["k_temp"], ",".join(sorted(exp))))


def run_billing(spec, rng, keys):
    import opendsm.eemeter as em
    role = spec["role"]
    tz = spec["tz"]
    I.reach("class.billing")
    nper = spec["n_periods"]
    steps = rng.integers(28, 34, nper)
    off = spec.get("offcycle")
    if off == "short":
        steps[int(rng.integers(1, nper - 1))] = int(rng.integers(5, 25))
    elif off == "long":
        steps[int(rng.integers(1, nper - 1))] = int(rng.integers(36, 50))
    if spec.get("boundary_periods") and not off and not spec.get("target_days") and nper > 4:
        # periods of exactly 35 and exactly 25 days are valid billing periods (the limits are inclusive): nothing is dropped, nothing is warned
        j35, j25 = rng.choice(np.arange(1, nper - 1), size=2, replace=False)
        steps[j35], steps[j25] = 35, 25
        if spec["boundary_periods"] == "two-long":
            steps[j25] = 35
        I.reach("billing.period_exactly_on_a_length_limit")
    if spec.get("target_days") and not off:
        # total span placed on a length threshold (329/330, 365/366): spread the difference over the interior periods, keep 25..35 days each
        diff = int(spec["target_days"]) - int(steps.sum())
        j = 1
        while diff != 0 and j < 10 * nper:
            i = 1 + (j % max(1, nper - 2))
            stp = 1 if diff > 0 else -1
            if 26 <= steps[i] + stp <= 34:
                steps[i] += stp
                diff -= stp
            j += 1
        if spec.get("first_longer_than_last") is not None and nper > 2:
            a, b = (33, 28) if spec["first_longer_than_last"] else (27, 34)
            d0 = (steps[0] - a) + (steps[-1] - b)
            steps[0], steps[-1] = a, b
            j = 1
            while d0 != 0 and j < 10 * nper:
                i = 1 + (j % max(1, nper - 2))
                stp = 1 if d0 > 0 else -1
                if 26 <= steps[i] + stp <= 34:
                    steps[i] += stp
                    d0 -= stp
                j += 1
        if int(steps.sum()) == int(spec["target_days"]):
            I.reach("billing.span_on_a_length_threshold")
    days = int(steps.sum())
    start = pd.Timestamp("2018-01-01") + pd.Timedelta(days=int(rng.integers(0, 300)))
    didx = pd.date_range(start.tz_localize(tz), periods=days + 1, freq="D")
    T = np.round(daily_weather(rng, didx), 2)
    yd = 20 + 1.0 * np.maximum(55 - T, 0) + 0.6 * np.maximum(T - 68, 0)
    starts = np.concatenate([[0], np.cumsum(steps)])
    vals = [float(np.round(yd[starts[i]:starts[i + 1]].sum(), 2)) for i in range(nper)] + [np.nan]
    mt = place_gaps(rng, days + 1, spec["k_temp"], spec["how_temp"], didx)
    TT = T.copy()
    TT[mt] = np.nan
    obs = pd.Series(np.nan, index=didx)
    obs.iloc[starts] = vals
    # frame convention of the billing classes: the final row is the last day *of* the last period (inclusive end)
    df = pd.DataFrame({"temperature": TT, "observed": obs.values}, index=didx).iloc[:-1]
    electric = True
    entry = spec.get("entry", "frame")
    try:
        cls = em.BillingBaselineData if role == "baseline" else em.BillingReportingData
        if entry == "frame":
            data = cls(df, is_electricity_data=electric)
        else:
            # from_series: reads (with the closing NaN read) + a temperature feed that starts before the first read and runs past the
            # last one (the feed of a weather station is not cut to the meter's span); same information as the frame
            eb, ea = int(spec.get("extra_before", 0)), int(spec.get("extra_after", 0))
            fidx = pd.date_range((start - pd.Timedelta(days=eb)).tz_localize(tz), periods=days + 1 + eb + ea, freq="D")
            fT = np.round(daily_weather(rng, fidx), 2)
            fT[eb:eb + days + 1] = TT
            reads = pd.Series(vals, index=didx[starts], name="usage")
            if entry == "series":
                feed = pd.Series(fT, index=fidx, name="temp")
            else:
                hidx = pd.date_range(fidx[0], fidx[-1] + pd.Timedelta(hours=23), freq="h")
                pos = fidx.get_indexer(hidx.normalize())
                hidx, pos = hidx[pos >= 0], pos[pos >= 0]
                feed = pd.Series(fT[pos] + np.round(3 * np.sin(2 * np.pi * (hidx.hour.values - 15) / 24), 2), index=hidx, name="temp")
            I.reach("entry.billing_from_series")
            if steps[0] != steps[-1]:
                I.reach("entry.billing_from_series_first_and_last_period_differ")
            data = cls.from_series(reads, feed, is_electricity_data=electric)
    except Exception as e:
        add("well-formed-input-rejected:%s:billing" % type(e).__name__, "billing/%s raised %s: %s" % (role, type(e).__name__, str(e)[:200]),
            spec={k: v for k, v in spec.items() if k not in ("seed", "tier", "i")})
        return
    # rows the class works on: one per day, first read .. day before the final read
    rows = didx[:-1]
    usage_ok = np.ones(len(rows), bool)
    for i in range(nper):
        L = steps[i]
        if L < 25 or L > 35:
            usage_ok[starts[i]:starts[i + 1]] = False         # off-cycle period dropped
    temp_ok = np.isfinite(TT[:-1])
    t = rows.asi8 if rows.unit == "ns" else rows.as_unit("ns").asi8
    exp, margins = CR.expected(t, local_dates(rows), usage_ok, temp_ok, role == "baseline", usage_supplied=True)
    cond = ["utc_index"] if tz == "UTC" else []
    if entry != "series-hourly":
        cond.append("unable_to_confirm_daily_temperature_sufficiency")
    if off:
        cond.append("offcycle_reads_in_billing_monthly_data")
    # the class's own day count is the billed span (first read .. last read, local calendar days)
    cnt = COUNTERS[-1] if COUNTERS else None
    if cnt is not None and not off and not spec["k_temp"]:
        I.reach("billing.day_count_compared")
        if int(cnt["n_days_total"]) != days:
            # recorded mechanism (narrow): from_series measures the last meter period in elapsed time; when the last billed day is the 23-hour day
            # of a spring-forward change the weather feed is cut one day early, that day has no temperature and the span is one day short
            last_day_23h = entry != "frame" and (didx[-1] - didx[-2]) == pd.Timedelta(hours=23)
            add("day-count-differs-from-billed-span:billing/%s%s" % (entry, ":last-billed-day-is-a-spring-forward-day" if last_day_23h and int(cnt["n_days_total"]) == days - 1 else ""), "billing/%s (%s entry): the class counted %r days, the reads span %d local calendar days" % (role, entry, cnt["n_days_total"], days),
                spec={k: v for k, v in spec.items() if k not in ("seed", "tier", "i")})
    judge(data, exp, margins, tz in NO_DST and entry != "series-hourly", spec, cond)
    keys.add("billing|%s|%s|%s|%d|%s|%d|%s" % (role, entry, tz, days, off, spec["k_temp"], ",".join(sorted(exp))))


def run_billing_interval(spec, rng, keys):
    """The billing classes fed with DAILY meter rows (interval data rolled up to calendar months, warning inferior_model_usage): a calendar
    month counts as billed when at least one of its days has a reading; the days of a month without any reading have no valid usage."""
    import opendsm.eemeter as em
    role, tz = spec["role"], spec["tz"]
    I.reach("class.billing")
    I.reach("entry.billing_class_fed_with_daily_rows")
    start = pd.Timestamp(year=2018, month=int(spec["start_month"]), day=int(spec.get("start_day", 1)))
    end = pd.Timestamp(year=2018, month=int(spec["start_month"]), day=1) + pd.DateOffset(months=int(spec["n_months"]))
    didx = pd.date_range(start.tz_localize(tz), end.tz_localize(tz), freq="D", inclusive="left")
    n = len(didx)
    T = np.round(daily_weather(rng, didx), 2)
    y = np.round(20 + 1.0 * np.maximum(55 - T, 0) + 0.6 * np.maximum(T - 68, 0) + rng.normal(0, 1, n), 3)
    y = np.maximum(y, 0.5)
    months = didx.month.values
    interior = [int(m) for m in pd.unique(months)][1:-1]
    miss = [interior[int(j)] for j in rng.choice(len(interior), size=min(int(spec["k_months"]), len(interior)), replace=False)] if spec["k_months"] else []
    y[np.isin(months, miss)] = np.nan
    if miss:
        I.reach("billing.calendar_month_without_any_reading")
    # a few isolated missing days inside billed months do not un-bill the month
    iso = rng.choice(np.flatnonzero(~np.isin(months, miss))[1:-1], size=int(spec.get("k_iso", 0)), replace=False) if spec.get("k_iso") else []
    y[iso] = np.nan
    mt = place_gaps(rng, n, spec["k_temp"], "random", didx)
    TT = T.copy()
    TT[mt] = np.nan
    gas = bool(spec.get("gas"))
    df = pd.DataFrame({"temperature": TT, "observed": y}, index=didx)
    cls = em.BillingBaselineData if role == "baseline" else em.BillingReportingData
    try:
        if spec["entry"] == "frame":
            data = cls(df, is_electricity_data=not gas)
        else:
            data = cls.from_series(df["observed"].rename("usage"), df["temperature"].rename("temp"), is_electricity_data=not gas)
    except Exception as e:
        add("well-formed-input-rejected:%s:billing" % type(e).__name__, "billing/%s fed with daily rows raised %s: %s" % (role, type(e).__name__, str(e)[:200]),
            spec={k: v for k, v in spec.items() if k not in ("seed", "tier", "i")})
        return
    usage_ok = ~np.isin(months, miss)
    temp_ok = np.isfinite(TT)
    t = didx.asi8 if didx.unit == "ns" else didx.as_unit("ns").asi8
    # every row's period runs up to the next timestamp: append the closing instant so that the last day counts like any other day
    closing = pd.DatetimeIndex([didx[-1] + pd.DateOffset(days=1)])
    allidx = didx.append(closing)
    t = allidx.asi8 if allidx.unit == "ns" else allidx.as_unit("ns").asi8
    exp, margins = CR.expected(t, local_dates(allidx), np.append(usage_ok, False), np.append(temp_ok, True), role == "baseline", usage_supplied=True)      # the closing instant is not a day: it ends the last period only
    cond = (["utc_index"] if tz == "UTC" else []) + ["inferior_model_usage"]
    judge(data, exp, margins, tz in NO_DST, dict(spec, family="billing", entry=("interval-rows/" if int(spec.get("start_day", 1)) == 1 else "interval-rows-starting-mid-month/") + spec["entry"]), cond)
    keys.add("billing-interval|%s|%s|%s|%d|%s|%d|%s" % (role, spec["entry"], tz, n, miss, spec["k_temp"], ",".join(sorted(exp))))


def gen_cases(tier, seed):
    rng = np.random.default_rng([seed, 10])
    q = tier == "quick"
    cases = []
    nd = 130 if q else 2400
    spans = [328, 329, 330, 364, 365, 366]
    for i in range(nd):
        tz = str(rng.choice(NO_DST)) if rng.random() < 0.6 else str(rng.choice(DST))
        n = int(rng.choice(spans)) if rng.random() < 0.45 else int(rng.integers(250, 421))
        role = "baseline" if rng.random() < 0.7 else "reporting"
        entry = str(rng.choice(["frame", "series", "hourly"], p=[0.6, 0.25, 0.15]))
        kstar = threshold_k(n)
        def pick():
            r = rng.random()
            if r < 0.25:
                return 0
            if r < 0.7:
                return max(0, kstar + int(rng.choice([-1, 0, 1])))
            return int(rng.integers(1, 80))
        ku, kt = pick(), pick()
        hows = ["random", "one_month", "run", "month_threshold", "month_threshold"] + (["leading", "trailing"] if entry == "frame" else [])
        spec = dict(kind="daily", family="daily", role=role, tz=tz, n_days=n, entry=entry, k_usage=ku if role == "baseline" else 0, k_temp=kt,
                    how_usage=str(rng.choice(hows)), how_temp=str(rng.choice(hows)), same_days=bool(rng.random() < 0.2),
                    gas=bool(rng.random() < 0.3), n=i)
        if spec["gas"] and rng.random() < 0.5:
            spec["negative"] = True if (i % 3 == 0 or not spec["k_temp"]) else "on-days-without-temperature"
        if rng.random() < 0.15:
            spec["extreme"] = True
        if not spec["gas"] and rng.random() < 0.15 and role == "baseline":
            spec["zeros"] = int(rng.integers(1, 50))
        if role == "reporting" and rng.random() < 0.5:
            spec["no_usage"] = True
        if entry == "frame" and rng.random() < 0.1:
            spec["datetime_col"] = True
        if ku + kt > n - 40:
            spec["k_usage"], spec["k_temp"] = min(ku, 60), min(kt, 60)
        cases.append(spec)
    # incomplete first / last rows with the count of missing days exactly on, just under and just over the 90% line (frame entry, whole-day zones)
    for i in range(18 if q else 180):
        n = int(rng.choice([330, 365, 350, 329]))
        kstar = threshold_k(n)
        how = ["first_row_plus_random", "last_row_plus_random", "both_end_rows_plus_random"][i % 3]
        k = kstar + [0, 1, -1, 2][(i // 3) % 4]
        which = ["temp", "usage", "both"][(i // 12) % 3] if i % 5 else "temp"
        role = "baseline" if i % 4 else "reporting"
        cases.append(dict(kind="daily", family="daily", role=role, tz=str(rng.choice(NO_DST)), n_days=n, entry="frame", k_usage=k if (which != "temp" and role == "baseline") else 0,
                          k_temp=k if which != "usage" or role != "baseline" else 0, how_usage=how, how_temp=how, same_days=(which == "both"), gas=bool(i % 2), n=50000 + i))
    # spans ON the length limits in DST zones that contain one clock change only (spring-forward but not the fall-back, and the reverse)
    for i in range(8 if q else 32):
        n_ = [329, 366, 328, 365][i % 4]
        cases.append(dict(kind="daily", family="daily", role="baseline", tz=DST[(i // 4) % len(DST)], n_days=n_, entry=["frame", "series"][(i // 2) % 2], k_usage=0, k_temp=0,
                          how_usage="random", how_temp="random", gas=False, start=["2020-11-15", "2020-04-20"][(i // 4) % 2] if DST[(i // 4) % len(DST)] not in ("Australia/Sydney", "Pacific/Auckland") else ["2020-04-20", "2020-10-20"][(i // 4) % 2], n=80000 + i))
    # a baseline without a single usable meter reading (the meter was offline): "no data at all" is a verdict, not a crash
    for i in range(3 if q else 12):
        n_ = [365, 340, 200][i % 3]
        cases.append(dict(kind="daily", family="daily", role="baseline", tz=str((NO_DST + DST)[(i * 3) % 14]), n_days=n_, entry=["frame", "series"][i % 2], k_usage=n_, k_temp=[0, 5][i % 2],
                          how_usage="leading", how_temp="random", gas=bool(i % 2), n=70000 + i))
    nh = 12 if q else 150
    for i in range(nh):
        tz = str(rng.choice(NO_DST + DST))
        n = int(rng.choice([300, 329, 340, 365, 366, 380])) if not q else int(rng.choice([329, 340, 366]))
        role = "baseline" if rng.random() < 0.7 else "reporting"
        cases.append(dict(kind="hourly", family="hourly", role=role, tz=tz, n_days=n, entry="frame", k_usage=int(rng.choice([0, 5, 30, 45])) if role == "baseline" else 0,
                          k_temp=int(rng.choice([0, 4, 30, 45])), how_usage=str(rng.choice(["random", "one_month", "run"])),
                          how_temp=str(rng.choice(["random", "one_month", "run"])), gas=bool(rng.random() < 0.3), ghi=bool(rng.random() < 0.4),
                          k_ghi=int(rng.choice([0, 2, 6])), no_usage=bool(role == "reporting" and rng.random() < 0.5), n=10000 + i, timeout=1800))
        if i % 2:
            cases[-1].update(k_usage=0, k_temp=0, hour_gap_month=["temperature", "observed"][(i // 2) % 2])
    nb = 16 if q else 200
    for i in range(nb):
        tz = str(rng.choice(NO_DST + DST))
        role = "baseline" if rng.random() < 0.7 else "reporting"
        cases.append(dict(kind="billing", family="billing", role=role, tz=tz, n_periods=int(rng.choice([10, 11, 12, 12, 13])), k_temp=int(rng.choice([0, 0, 3, 20, 40])),
                          how_temp=str(rng.choice(["random", "one_month", "run"])), offcycle=[None, None, "short", "long"][int(rng.integers(0, 4))], n=20000 + i))
    for i in range(20 if q else 240):
        tz = str(rng.choice(NO_DST + DST))
        role = "baseline" if rng.random() < 0.7 else "reporting"
        cases.append(dict(kind="billing", family="billing", role=role, tz=tz, n_periods=int(rng.choice([10, 11, 12, 12, 13])), k_temp=int(rng.choice([0, 0, 3, 20, 40])),
                          how_temp=str(rng.choice(["random", "one_month", "run"])), offcycle=[None, None, None, "short", "long"][int(rng.integers(0, 5))],
                          entry=["series", "series-hourly"][i % 2], extra_before=int(rng.choice([0, 0, 1, 3, 12])), extra_after=int(rng.choice([0, 1, 2, 5, 9, 20])), n=30000 + i))
        if i % 3 == 0:
            cases[-1].update(offcycle=None, n_periods=12, target_days=[365, 366, 364, 330, 329][(i // 3) % 5], first_longer_than_last=[True, False, None][(i // 3) % 3], k_temp=0)
            if cases[-1]["target_days"] < 340:
                cases[-1]["n_periods"] = 11
    # the billing classes fed with daily rows: whole calendar months without any reading between months with readings
    for i in range(12 if q else 120):
        cases.append(dict(kind="billing-interval", family="billing", role="baseline" if i % 4 else "reporting", tz=str((NO_DST + DST)[(i * 3 + i // 14) % 14]), start_month=1 + (i * 5) % 12,
                          n_months=[12, 12, 11, 12][i % 4], k_months=[2, 0, 1, 3, 2, 1][i % 6], k_iso=[0, 3, 0, 10][(i // 2) % 4], k_temp=[0, 0, 5, 30][(i // 3) % 4],
                          gas=bool(i % 2), entry=["frame", "series"][(i // 2) % 2], n=60000 + i))
    for i in range(2 if q else 12):
        # ... and a span that begins in the middle of a calendar month (every supplied day is complete)
        cases.append(dict(kind="billing-interval", family="billing", role="baseline", tz=str((NO_DST + DST)[(i * 5) % 14]), start_month=1 + (i * 7) % 12, start_day=[15, 10, 20][i % 3],
                          n_months=12, k_months=0, k_iso=0, k_temp=0, gas=bool(i % 2), entry=["frame", "series"][i % 2], n=61000 + i))
    for i in range(8 if q else 64):
        cases.append(dict(kind="billing", family="billing", role="baseline", tz=str((NO_DST + DST)[(i * 3) % 14]), n_periods=[11, 10, 11, 10][i % 4], k_temp=0, how_temp="random", offcycle=None,
                          entry=["frame", "series", "series-hourly"][i % 3], boundary_periods=["one-each", "two-long"][i % 2], extra_before=0, extra_after=2, n=45000 + i))
    for i in range(6 if q else 60):
        cases.append(dict(kind="billing", family="billing", role="baseline", tz=str(rng.choice(NO_DST + DST)), n_periods=12 if i % 5 < 3 else 11, k_temp=0, how_temp="random", offcycle=None,
                          entry="frame", target_days=[365, 366, 364, 330, 329][i % 5], n=40000 + i))
    return cases


def run_case(spec):
    rng = rng_for(spec["seed"], ID, spec["n"])
    del VIOL[:]
    del COUNTERS[:]
    keys = set()
    {"daily": run_daily, "hourly": run_hourly, "billing": run_billing, "billing-interval": run_billing_interval}[spec["kind"]](spec, rng, keys)
    return dict(viol=[dict(v) for v in VIOL[:6]], reach=I.take_reach(), keys=sorted(keys),
                hist={"class": spec["family"] + "/" + spec["role"] + "/" + spec.get("entry", "frame")}, events=1)
