"""C04 — the disqualification gate is fail-closed and survives storage.

Recording wrappers on the real fit/predict methods of the daily, billing and hourly model classes log
one gate event per call: (family, flags, disqualification names of data and model, stored?, data type,
timezone relation, outcome class).  The offline checker is a truth table written from the statement."""
import copy

import numpy as np
import pandas as pd

from vf import instrument as I
from vf import fits as FT
from vf.gen import rng_for

ID = "C04"
TECHNIQUE = 'runtime monitoring: recorded gate events (exception type or returned object) of the real fit/predict under every flag/storage/input-type/timezone combination, judged by a truth table written from the statement'
LEVEL = "exploration"
CASE_TIMEOUT = 3000
RULE = ("families {daily current/legacy, billing, hourly} x baseline datasets (non-constant noisy usage) with each kind of sufficiency defect {none, too "
        "short, too long, day gaps, month gap, NaN temperature run, combination, poor fit} x ignore_disqualification {F,T} at fit and at predict x "
        "model {as fitted, after to_json/from_json} x reporting input {own reporting data, own baseline data, another family's data object, a bare "
        "DataFrame, None} x timezone {same, another zone, UTC} x unfitted model.  distinct_nontrivial = distinct gate events (tuples above) other than "
        "the plain qualified fit/predict.")
ASSUMPTIONS = ["when several refusal reasons hold at once (e.g. disqualified and foreign timezone) any raised exception counts as refusal",
               "a model 'carries a disqualification' when model.disqualification is non-empty"]
REQUIRED_REACH = {"event.fit": 24, "event.predict": 200, "gate.fit_refused": 6, "gate.fit_overridden": 6, "gate.predict_refused_dq": 10,
                  "gate.predict_overridden": 10, "gate.predict_refused_foreign": 40, "gate.stored_model_events": 60, "gate.poor_fit_model": 2, "gate.poor_fit_rule_judged": 3, "gate.model_object_refitted": 6, "gate.subclass_related_foreign_type": 4, "gate.poor_fit_with_an_undefined_metric": 1, "gate.reporting_data_with_an_unused_column": 4, "gate.another_model_of_the_family_fitted_afterwards": 12, "gate.fit_override_given_as_another_falsy_or_truthy_value": 20, "gate.poor_fit_rule_judged_on_a_poor_fit_of_another_hourly_profile": 2,
                  "gate.unfitted": 6, "stored.disqualification_kind:missing_monthly_temperature_data": 1, "stored.disqualification_kind:incorrect_number_of_total_days": 1}

VIOL = []
EVENTS = []


def add(mech, what, **kw):
    if sum(1 for v in VIOL if v["mech"] == mech) < 3:
        VIOL.append(dict(mech=mech, what=what, **kw))


_done = False


def setup_worker():
    global _done
    _done = True


def names(lst):
    return sorted({w.qualified_name.split(".")[-1] for w in (lst or [])})


def defect_frame(fam, rng, tz, defect):
    days = 365
    if defect == "too_short":
        days = int(rng.integers(200, 320))
    if defect.startswith("very_short"):
        days = int(defect.split(":")[1])
    if defect == "too_long":
        days = int(rng.integers(380, 420))
    df = fam.baseline_frame(rng, tz=tz, days=days, noise=0.08)
    obs = df.columns.get_loc("observed")
    tmp = df.columns.get_loc("temperature")
    per = 1 if fam.kind in ("daily", "billing") else 24
    if defect in ("day_gaps", "combination") and fam.kind != "billing":
        k = rng.choice(np.arange(10, len(df) // per - 10), size=60, replace=False)
        for d in k:
            df.iloc[d * per:(d + 1) * per, obs] = np.nan
    if defect in ("month_gap", "combination"):
        a = int(rng.integers(40, 200)) * per
        df.iloc[a:a + 31 * per, tmp] = np.nan
    if defect == "temp_run":
        a = int(rng.integers(40, 200)) * per
        df.iloc[a:a + 45 * per, tmp] = np.nan
    if defect == "poor_fit_undefined_metric":
        # net-metered, spiky: mean usage 0 (CVRMSE undefined) and heavy tails (RMSE many times the inter-quartile range)
        v = rng.standard_t(1.5, len(df))
        df["observed"] = v - float(v.mean())
    if defect == "poor_fit":
        col = df["observed"]
        vals = np.exp(rng.normal(0.0, 1.5, len(df)))
        df["observed"] = np.where(col.notna(), vals * (float(col.mean()) if fam.kind == "billing" else 1.0), np.nan)
    return df


def outcome_of(fn):
    try:
        r = fn()
        return "returned", r, None
    except Exception as e:
        return type(e).__name__, None, e


def raising_site(exc):
    """innermost function of the repository on the traceback (deterministic tag for the mechanism)"""
    import traceback
    site = "?"
    for fr in traceback.extract_tb(exc.__traceback__):
        if "/opendsm/" in fr.filename.replace("\\", "/"):
            site = fr.name
    return site


def run_case(spec):
    import opendsm.eemeter as em
    from opendsm.eemeter.common.exceptions import DataSufficiencyError, DisqualifiedModelError
    rng = rng_for(spec["seed"], ID, spec["n"])
    del VIOL[:]
    keys = set()
    fam = FT.Family(spec["family"])
    tz = spec["tz"]
    defect = spec["defect"]
    df = defect_frame(fam, rng, tz, defect)
    data = fam.baseline_data(df)
    data_dq = names(data.disqualification)
    tag = dict(family=spec["family"], defect=defect, tz=tz, data_disqualification=data_dq)
    Model, BaseCls, RepCls = fam.classes()
    models = {}
    # ---- fit gate --------------------------------------------------------------------------------------------
    for ign in (False, True):
        m = fam.new_model(seed=spec["n"] + 1)
        d = copy.deepcopy(data)
        out, res, exc = outcome_of(lambda: m.fit(d, ignore_disqualification=ign))
        I.reach("event.fit")
        keys.add("fit|%s|%s|%s|%s" % (spec["family"], bool(data_dq), ign, out))
        if data_dq and not ign:
            if out != "DataSufficiencyError":
                add("fit-gate-open:%s" % fam.kind, "fit on data disqualified by %s without the override ended in %r instead of DataSufficiencyError" % (data_dq, out), ignore=ign, **tag)
            else:
                I.reach("gate.fit_refused")
        else:
            if out != "returned":
                kind = "overridden" if data_dq else "qualified"
                prof = "" if fam.profile in ("current", "legacy", "default") else ":developer-profile-%s" % fam.profile
                if defect.startswith("very_short"):
                    prof += ":%s:baseline-of-a-few-days" % raising_site(exc)
                    I.reach("gate.very_short_baseline_fit_raised")
                if getattr(fam, "timer", False):
                    prof += ":%s:meter-with-one-daily-schedule-all-year" % raising_site(exc)
                add("fit-did-not-return-a-model:%s:%s:%s%s" % (fam.kind, kind, out, prof), "fit on %s data (override %s) raised %s: %s" % (kind, ign, out, str(exc)[:200]), ignore=ign, **tag)
            else:
                if data_dq:
                    I.reach("gate.fit_overridden")
                if res is not m:
                    add("fit-returned-another-object", "fit did not return the model itself")
                models[ign] = m
    # ---- the override as configuration code delivers it: numpy booleans from a comparison / a DataFrame cell, 0 / 1 ------------------
    if data_dq:
        for alt, truth in ((np.bool_(False), False), (0, False), (np.bool_(True), True), (1, True)):
            m_alt = fam.new_model(seed=spec["n"] + 1)
            out_a, _, _ = outcome_of(lambda: m_alt.fit(copy.deepcopy(data), ignore_disqualification=alt))
            I.reach("gate.fit_override_given_as_another_falsy_or_truthy_value")
            if not truth and out_a != "DataSufficiencyError":
                add("fit-gate-open:%s:override-given-as-%s" % (fam.kind, type(alt).__name__), "fit on data disqualified by %s with ignore_disqualification=%r (%s) ended in %r instead of DataSufficiencyError" % (
                    data_dq, alt, type(alt).__name__, out_a), **tag)
            if truth and out_a == "DataSufficiencyError":
                add("fit-refused-although-overridden:%s:override-given-as-%s" % (fam.kind, type(alt).__name__), "fit with ignore_disqualification=%r raised DataSufficiencyError" % (alt,), **tag)
    # ---- a model object that was fitted on ANOTHER baseline before carries the gate state of its LAST fit only ----------------
    if defect in ("none", "too_short", "month_gap", "poor_fit") and fam.kind != "caltrack":
        other_defect = "too_short" if defect == "none" else "none"
        odf = defect_frame(fam, rng, tz, other_defect)
        mo = fam.new_model(seed=spec["n"] + 1)
        o1, _, _ = outcome_of(lambda: mo.fit(fam.baseline_data(odf), ignore_disqualification=True))
        o2, _, e2 = outcome_of(lambda: mo.fit(copy.deepcopy(data), ignore_disqualification=True))
        if o1 == "returned" and o2 == "returned":
            I.reach("gate.model_object_refitted")
            ref = models.get(True)
            if ref is not None and names(mo.disqualification) != names(ref.disqualification):
                add("refitted-model-carries-gate-state-of-an-earlier-fit:%s" % fam.kind, "model object fitted on a %s baseline and then on this one carries %s; a fresh object carries %s" % (
                    "disqualified" if other_defect != "none" else "clean", names(mo.disqualification), names(ref.disqualification)), **tag)
    # ---- fleet processing: ANOTHER model object of the family is fitted afterwards on a baseline of the opposite gate status: the models
    #      fitted before keep the disqualifications they were fitted with (and the predict gates below are judged after this) ---------------
    if fam.kind != "caltrack" and models:
        at_fit = {ign_: names(m_.disqualification) for ign_, m_ in models.items()}
        later_defect = "none" if data_dq else "too_short"
        o3, _, _ = outcome_of(lambda: fam.new_model(seed=spec["n"] + 7).fit(fam.baseline_data(defect_frame(fam, rng, tz, later_defect)), ignore_disqualification=True))
        if o3 == "returned":
            I.reach("gate.another_model_of_the_family_fitted_afterwards")
            for ign_, m_ in models.items():
                if names(m_.disqualification) != at_fit[ign_]:
                    add("gate-state-of-a-fitted-model-changed-by-a-later-fit-of-another-model:%s" % fam.kind,
                        "model fitted with %s; after another model object was fitted on a %s baseline it carries %s" % (
                            at_fit[ign_], "clean" if later_defect == "none" else "disqualified", names(m_.disqualification)), **tag)
                    break
    # unfitted model refuses to predict
    rep_df = fam.reporting_frame(rng, tz, "2019-03-01", 60, with_observed=True)
    rdata = fam.reporting_data(rep_df)
    out, _, exc = outcome_of(lambda: fam.new_model().predict(rdata))
    I.reach("gate.unfitted")
    if out == "returned":
        add("unfitted-model-predicts:%s" % fam.kind, "an unfitted model returned a prediction", **tag)
    out, _, exc = outcome_of(lambda: fam.new_model().predict(rdata, ignore_disqualification=True))
    I.reach("gate.unfitted")
    if out == "returned":
        add("unfitted-model-predicts:%s" % fam.kind, "an unfitted model returned a prediction (override given)", **tag)
    if not models:
        return dict(viol=[dict(v) for v in VIOL], reach=I.take_reach(), keys=sorted(keys), hist={"family": spec["family"], "defect": defect}, events=4)
    m = models.get(True) or models.get(False)
    model_dq = names(m.disqualification)
    if any("model_fit" in w.qualified_name for w in m.disqualification):
        I.reach("gate.poor_fit_model")
    # "added for poor fit": the model carries the poor-fit disqualification exactly when its own reported fit statistics miss the thresholds
    if defect.startswith("poor_fit"):
        has = any("model_fit" in w.qualified_name for w in m.disqualification)
        if fam.kind == "hourly":
            cv, pn = m.baseline_metrics.cvrmse_adj, m.baseline_metrics.pnrmse_adj
            ok_fit = bool((cv is not None and cv < m.settings.cvrmse_threshold) or (pn is not None and pn < m.settings.pnrmse_threshold))
            desc = "cvrmse_adj=%r (threshold %r), pnrmse_adj=%r (threshold %r)" % (cv, m.settings.cvrmse_threshold, pn, m.settings.pnrmse_threshold)
            if cv is None or pn is None:
                I.reach("gate.poor_fit_with_an_undefined_metric")
        elif fam.kind in ("daily", "billing"):
            ok_fit = bool(not (m.error["CVRMSE"] > m.settings.cvrmse_threshold))
            desc = "CVRMSE=%r (threshold %r)" % (m.error["CVRMSE"], m.settings.cvrmse_threshold)
        else:
            ok_fit = None
        if ok_fit is not None:
            I.reach("gate.poor_fit_rule_judged")
            if fam.kind == "hourly" and not ok_fit and spec["family"] != "hourly:default":
                I.reach("gate.poor_fit_rule_judged_on_a_poor_fit_of_another_hourly_profile")
            if has == ok_fit:
                add("poor-fit-disqualification-%s:%s" % ("spurious" if ok_fit else "missing", fam.kind), "model %s a poor-fit disqualification although %s" % (
                    "carries" if has else "does not carry", desc), **tag)
    # ---- predict gate ---------------------------------------------------------------------------------------------
    other_fam = FT.Family({"daily": "hourly:default", "billing": "daily:current", "hourly": "daily:current"}[fam.kind])
    other_tz = "Australia/Sydney" if tz != "Australia/Sydney" else "Europe/London"
    inputs = {
        "own-reporting": (rdata, False, "same"),
        "own-baseline": (data, False, "same"),
        "own-reporting-no-usage": (fam.reporting_data(fam.reporting_frame(rng, tz, "2019-05-01", 40, with_observed=False)), False, "same"),
        "own-reporting-other-tz": (fam.reporting_data(fam.reporting_frame(rng, other_tz, "2019-03-01", 60)), False, "other"),
        "own-reporting-utc": (fam.reporting_data(fam.reporting_frame(rng, "UTC", "2019-03-01", 60)), False, "other" if tz != "UTC" else "same"),
        "other-family-data": (other_fam.reporting_data(other_fam.reporting_frame(rng, tz, "2019-03-01", 40)), True, "same"),
        "bare-dataframe": (rep_df.copy(), True, "n/a"),
        "none": (None, True, "n/a"),
    }
    if fam.kind == "billing":
        inputs["daily-data-of-same-shape"] = (em.DailyReportingData(rep_df.copy(), is_electricity_data=True), True, "same")
    if fam.kind == "hourly" and not fam.ghi:
        # reporting data that carries a column the model does not use (irradiance for a model fitted without it): a notice, nothing else -
        # every gate stays where it is
        def with_ghi(z, start, days):
            fr = fam.reporting_frame(rng, z, start, days)
            g = FT.synth_hourly(tz=z, start=start, days=days, seed=rng, ghi=True)["ghi"]
            return fam.reporting_data(fr.assign(ghi=g.values))
        try:
            inputs["own-reporting-carrying-an-unused-ghi-column"] = (with_ghi(tz, "2019-03-01", 30), False, "same")
            inputs["own-reporting-carrying-an-unused-ghi-column-other-tz"] = (with_ghi(other_tz, "2019-03-01", 30), False, "other")
            I.reach("gate.reporting_data_with_an_unused_column")
        except Exception:
            pass
    if fam.kind == "hourly":
        # the other hourly family's data object: same name, same shape, a foreign type
        cfam = FT.Family("caltrack")
        try:
            inputs["caltrack-hourly-data-of-the-same-zone"] = (cfam.reporting_data(cfam.reporting_frame(rng, tz, "2019-03-01", 30)), True, "same")
        except Exception:
            pass
    if fam.kind == "daily":
        # the billing classes derive from the daily ones: a foreign type all the same (same zone, same columns)
        bfam = FT.Family("billing")
        try:
            inputs["billing-reporting-data-of-the-same-zone"] = (bfam.reporting_data(bfam.reporting_frame(rng, tz, "2019-03-01", 90)), True, "same")
            inputs["billing-baseline-data-of-the-same-zone"] = (bfam.baseline_data(bfam.baseline_frame(rng, tz=tz, days=365)), True, "same")
            I.reach("gate.subclass_related_foreign_type")
        except Exception:
            pass
    variants = {"as-fitted": m}
    try:
        variants["stored"] = fam.from_json(m.to_json())
    except Exception as e:
        add("model-cannot-be-stored:%s:%s" % (fam.kind, type(e).__name__), "to_json/from_json raised %s: %s" % (type(e).__name__, str(e)[:160]), **tag)
    for vname, mv in variants.items():
        vdq = names(mv.disqualification)
        if vname == "stored":
            for nm in model_dq:
                I.reach("stored.disqualification_kind:" + nm)
        if vname == "stored" and vdq != model_dq:
            add("disqualification-not-restored:%s" % fam.kind, "stored model carries %s, the fitted one %s" % (vdq, model_dq), **tag)
        for iname, (obj, foreign, tzrel) in inputs.items():
            for ign in (False, True):
                mm = copy.deepcopy(mv)
                out, res, exc = outcome_of(lambda: mm.predict(obj, ignore_disqualification=ign))
                I.reach("event.predict")
                if vname == "stored":
                    I.reach("gate.stored_model_events")
                ev = dict(model=vname, input=iname, ignore=ign, model_disqualification=vdq, outcome=out, **tag)
                keys.add("predict|%s|%s|%s|%s|%s|%s" % (spec["family"], vname, iname, bool(vdq), ign, out))
                must_refuse = foreign or tzrel == "other"
                if must_refuse:
                    if out == "returned":
                        why = "foreign-data-type" if foreign else "foreign-timezone"
                        add("predict-accepts-%s:%s:%s" % (why, fam.kind, iname), "predict returned a frame for input %r (%s)" % (iname, why), **ev)
                    else:
                        I.reach("gate.predict_refused_foreign")
                elif vdq and not ign:
                    if out != "DisqualifiedModelError":
                        add("predict-gate-open:%s:%s" % (fam.kind, vname), "model disqualified by %s predicted without the override: outcome %r" % (vdq, out), **ev)
                    else:
                        I.reach("gate.predict_refused_dq")
                else:
                    if out != "returned":
                        add("predict-refused-although-allowed:%s:%s:%s" % (fam.kind, out, iname),
                            "predict on %s (model disqualification %s, override %s) raised %s: %s" % (iname, vdq, ign, out, str(exc)[:160]), **ev)
                    elif vdq:
                        I.reach("gate.predict_overridden")
    return dict(viol=[dict(v) for v in VIOL], reach=I.take_reach(), keys=sorted(keys), hist={"family": spec["family"], "defect": defect,
                "model_disqualification": ",".join(model_dq) or "none"}, events=4 + 2 * len(inputs) * len(variants))


def gen_cases(tier, seed):
    q = tier == "quick"
    fams = ["daily:current", "daily:legacy", "billing", "hourly:default"]
    defects = ["none", "too_short", "poor_fit", "day_gaps", "month_gap", "temp_run", "combination", "too_long", "very_short:3", "very_short:10", "very_short:30", "very_short:60"]
    zones = ["America/Chicago", "Europe/London", "UTC", "Asia/Kolkata"]
    cases = []
    k = 0
    combos = [(f, d) for d in defects for f in fams]
    if q:
        combos = [(f, d) for (f, d) in combos if d in ("none", "too_short", "poor_fit")] + [("hourly:default", "poor_fit_undefined_metric"), ("daily:current", "very_short:3"), ("daily:legacy", "very_short:10"), ("hourly:default", "very_short:30"), ("billing", "very_short:3"), ("daily:current", "very_short:10"),
                                                                                          ("daily:current", "day_gaps"), ("hourly:default", "month_gap"),
                                                                                          ("daily:current", "month_gap"), ("billing", "month_gap"), ("daily:legacy", "temp_run"),
                                                                                          # the poor-fit rule under the other fitting paths of the hourly family (adaptive re-weighting, other scaler, solar)
                                                                                          ("hourly:adaptive", "poor_fit"), ("hourly:robust", "poor_fit"), ("hourly:default:ghi", "poor_fit"),
                                                                                          # accepted settings alternatives of the hourly family: fit returns a model (or the typed error) under each of them
                                                                                          ("hourly:nobins", "none"), ("hourly:nointercept", "none"), ("hourly:enet-random", "too_short"), ("hourly:cluster-cosine", "none"),
                                                                                          # a degenerate but well-formed meter: a timer-driven load, the same daily schedule all year
                                                                                          ("hourly:default:timer", "none")]
    else:
        combos = combos * 3 + [("hourly:default", "poor_fit_undefined_metric"), ("hourly:robust", "poor_fit_undefined_metric"), ("hourly:default:ghi", "poor_fit_undefined_metric")]
        # developer / custom profiles too (thorough): the gate must not depend on the profile
        combos += [(f, d) for d in ("none", "too_short", "poor_fit", "combination") for f in ("daily:legacy-dev-splits", "daily:dev-c_hdd", "daily:custom-maps", "daily:dev-nofinal", "hourly:robust", "hourly:noedge")]
        combos += [("hourly:" + p_, d) for d in ("poor_fit", "none") for p_ in FT.HOURLY_PROFILES if p_ not in ("default", "robust", "noedge")] + [("hourly:adaptive:ghi", "poor_fit"), ("hourly:supp:ghi", "poor_fit")]
    for f, d in combos:
        cases.append(dict(kind="gate", family=f, defect=d, tz=zones[k % len(zones)], n=k, timeout=3000))
        k += 1
    return cases
