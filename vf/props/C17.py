"""C17 — hourly data preparation keeps what was measured and flags what was filled.

Boundary monitor: data.df of the real HourlyBaselineData / HourlyReportingData is compared cell by
cell with the input frame by a small reference written from the statement; wrappers on the real
interpolate()/_interpolate_col() count how many cells the autocorrelation stage and the fallback
stages (time / ffill / bfill) filled (reach counters per stage)."""
import datetime as dt
import zoneinfo

import numpy as np
import pandas as pd

from vf import instrument as I
from vf.gen import rng_for

ID = "C17"
TECHNIQUE = 'runtime monitoring: post-conditions on the frames produced by the real hourly data classes (whole local days, measured values kept, filled cells flagged, nothing left missing) over gap/duplicate/DST patterns'
LEVEL = "exploration"
NEEDS_NUMBA = False
CASE_TIMEOUT = 1800
RULE = ("generated on-the-hour hourly inputs: 4 days..2 years, any start/end hour, NaN cells (isolated, runs, whole days/weeks), absent "
        "rows, duplicated rows (first value differs from later ones), zeros, with/without irradiance, electric or gas, baseline and "
        "reporting (with and without usage), several timezones incl. spans over DST days; every cell of data.df is compared with "
        "the input.  distinct_nontrivial = distinct (class, zone, length class, defect set, has ghi, fuel) datasets that needed at least one fill.")
ASSUMPTIONS = ["supplied values are finite or NaN (no +-inf)", "zones whose DST shift is not a whole hour (Australia/Lord_Howe) are outside the quantifier: their hourly instants are not on the local hour after the shift", "a duplicate timestamp keeps the first supplied row as a whole",
               "the local day of a timestamp is taken from the zoneinfo database"]
REQUIRED_REACH = {"dataset.checked": 60, "cells.supplied_compared": 50000, "cells.filled_checked": 2000, "fill.autocorr_cells": 500,
                  "fill.fallback_cells": 50, "dup.rows": 50, "zero.electric_cells": 50, "dst.day_inside": 5, "entry.datetime_column": 15, "entry.datetime_column_with_duplicates": 8}

VIOL = []
STAGE = {"autocorr": 0, "total": 0}


def add(mech, what, **kw):
    if sum(1 for v in VIOL if v["mech"] == mech) < 3:
        VIOL.append(dict(mech=mech, what=what, **kw))


def col_pre(a, k):
    x = a[0]
    return int(x.isna().sum())


def col_post(ctx, a, k, res, exc):
    if exc is None and res is not None:
        STAGE["autocorr"] += ctx - int(res.isna().sum())


def interp_pre(a, k):
    df = a[0]
    cols = k.get("columns") or (a[1] if len(a) > 1 else None) or ["temperature", "ghi", "observed"]
    return {c: int(df[c].isna().sum()) for c in cols if c in df.columns}


def interp_post(ctx, a, k, res, exc):
    if exc is None:
        STAGE["total"] += sum(ctx[c] - int(res[c].isna().sum()) for c in ctx)


_done = False


def setup_worker():
    global _done
    if _done:
        return
    import opendsm.eemeter  # noqa
    import opendsm.common.hourly_interpolation as HI
    I.wrap(HI, "_interpolate_col", pre=col_pre, post=col_post)
    I.wrap(HI, "interpolate", pre=interp_pre, post=interp_post)
    _done = True


def expected_index(first, last, tzname):
    """contiguous hourly instants over whole local days first..last supplied day (zoneinfo, independent of pandas)"""
    z = zoneinfo.ZoneInfo(tzname) if tzname != "UTC" else dt.timezone.utc
    a = dt.datetime.fromtimestamp(first.value // 10 ** 9, z)
    b = dt.datetime.fromtimestamp(last.value // 10 ** 9, z)
    start = dt.datetime(a.year, a.month, a.day, tzinfo=z)
    end_day = dt.date(b.year, b.month, b.day)
    t = int(start.timestamp())
    out = []
    while True:
        d = dt.datetime.fromtimestamp(t, z)
        if d.date() > end_day:
            break
        out.append(t)
        t += 3600
    return np.array(out, dtype=np.int64) * 10 ** 9


def make_input(rng, spec):
    tz = spec["tz"]
    days = spec["days"]
    start = pd.Timestamp("2019-01-01") + pd.Timedelta(days=int(rng.integers(0, 700)))
    s = (start + pd.Timedelta(hours=int(rng.integers(0, 24)))).tz_localize("UTC").tz_convert(tz)
    s = s - pd.Timedelta(minutes=s.minute, seconds=s.second)        # on the local hour (no wall-clock rounding: safe on DST days)
    idx = pd.date_range(s, periods=days * 24 + int(rng.integers(-20, 20)), freq="h")
    n = len(idx)
    hod = idx.hour.values
    doy = idx.dayofyear.values
    T = 55 - 25 * np.cos(2 * np.pi * (doy - 15) / 365) + 8 * np.sin(2 * np.pi * (hod - 9) / 24) + rng.normal(0, 2, n)
    y = (1 + 0.5 * np.sin(2 * np.pi * (hod - 14) / 24)) * (1.0 + 0.05 * np.maximum(50 - T, 0) + 0.04 * np.maximum(T - 68, 0)) * (1 + rng.normal(0, 0.05, n))
    df = pd.DataFrame({"temperature": np.round(T, 3), "observed": np.round(y, 4)}, index=idx)
    if spec["ghi"]:
        df["ghi"] = np.round(np.maximum(0, 800 * np.sin(np.pi * (hod - 6) / 12)), 2)
        if spec["electric"]:
            df["observed"] = np.round(df["observed"] - df["ghi"] / 1000, 4)      # may go negative / zero (solar export)
    defects = []
    cols = list(df.columns)
    for d in spec["defects"]:
        if d == "nan_cells":
            for c in cols:
                k = rng.choice(n, size=max(1, int(rng.uniform(0.005, 0.08) * n)), replace=False)
                df.iloc[k, df.columns.get_loc(c)] = np.nan
        elif d == "nan_runs":
            for c in cols:
                for _ in range(int(rng.integers(1, 4))):
                    a = int(rng.integers(0, n - 2))
                    L = int(rng.choice([3, 8, 30, 24 * 3, 24 * 9]))
                    df.iloc[a:a + L, df.columns.get_loc(c)] = np.nan
        elif d == "edge_nan":
            c = str(rng.choice(cols))
            L = int(rng.integers(1, 40))
            if rng.random() < 0.5:
                df.iloc[:L, df.columns.get_loc(c)] = np.nan
            else:
                df.iloc[-L:, df.columns.get_loc(c)] = np.nan
        elif d == "zeros":
            k = rng.choice(n, size=max(1, int(0.02 * n)), replace=False)
            df.iloc[k, df.columns.get_loc("observed")] = 0.0
        elif d == "absent_rows":
            drop = rng.random(n) < rng.uniform(0.01, 0.1)
            a = int(rng.integers(0, n - 2))
            drop[a:a + int(rng.choice([5, 30, 24 * 4]))] = True
            drop[0] = drop[-1] = False
            df = df[~drop]
            n = len(df)
        elif d == "dups":
            k = rng.choice(len(df), size=max(1, int(0.02 * len(df))), replace=False)
            dup = df.iloc[k].copy()
            dup["temperature"] = dup["temperature"] + 50.0         # later duplicates carry other values
            dup["observed"] = dup["observed"] * 3 + 1
            parts = [df, dup]
            df = pd.concat(parts)
            df = df.iloc[np.argsort(df.index.asi8, kind="stable")]      # first occurrence stays first
            n = len(df)
        elif d == "empty_ghi" and "ghi" in df.columns:
            df["ghi"] = np.nan
        elif d == "unsorted":
            df = df.iloc[rng.permutation(len(df))]
        defects.append(d)
    if spec["cls"] == "reporting-noobs":
        df = df.drop(columns=["observed"])
    return df


def check(df_in, data, spec, keys):
    tz = spec["tz"]
    out = data.df
    electric = spec["electric"]
    I.reach("dataset.checked")
    # ---- reference view of the input: first of duplicates, zero electric usage = missing -----------------
    ref = df_in[~df_in.index.duplicated(keep="first")]
    I.reach("dup.rows", int(df_in.index.duplicated(keep="first").sum()))
    ref = ref.copy()
    if "observed" not in ref.columns:
        ref["observed"] = np.nan
    if electric:
        I.reach("zero.electric_cells", int((ref["observed"] == 0).sum()))
        ref.loc[ref["observed"] == 0, "observed"] = np.nan
    # ---- index ----------------------------------------------------------------------------------------------
    exp_idx = expected_index(ref.index.min(), ref.index.max(), tz)
    got_idx = out.index.asi8 if out.index.unit == "ns" else out.index.as_unit("ns").asi8
    if not np.array_equal(got_idx, exp_idx):
        add("index-not-whole-local-days", "output index (%d rows %s..%s) is not the contiguous hourly index over whole local days %s..%s (%d rows)" % (
            len(out), out.index[0], out.index[-1], ref.index.min(), ref.index.max(), len(exp_idx)), tz=tz)
        return
    if str(out.index.tz) != str(df_in.index.tz):
        add("timezone-changed", "output timezone %s != input %s" % (out.index.tz, df_in.index.tz))
    # days with 23/25 hours inside the frame
    per_day = pd.Series(1, index=out.index).groupby(out.index.date).sum()
    if ((per_day != 24).sum()) > 0:
        I.reach("dst.day_inside", int((per_day != 24).sum()))
    pos = pd.Index(exp_idx).get_indexer(ref.index.asi8 if ref.index.unit == "ns" else ref.index.as_unit("ns").asi8)
    needed_fill = False
    for c in ["temperature", "observed"] + (["ghi"] if "ghi" in ref.columns else []):
        if c not in out.columns:
            add("column-missing", "column %r missing from data.df" % c)
            continue
        sup = ref[c].to_numpy(dtype=float)
        have = np.isfinite(sup)
        got = out[c].to_numpy(dtype=float)
        supplied = np.zeros(len(out), bool)
        supplied[pos[have]] = True
        vals = np.full(len(out), np.nan)
        vals[pos[have]] = sup[have]
        I.reach("cells.supplied_compared", int(supplied.sum()))
        bad = supplied & ~((got == vals))
        if bad.any():
            i = int(np.argmax(bad))
            add("supplied-value-changed:" + c, "%s at %s was supplied as %r but data.df holds %r" % (c, out.index[i], vals[i], got[i]), column=c,
                n=int(bad.sum()))
        flagc = "interpolated_" + c
        whole_empty = not have.any()
        if flagc not in out.columns:
            add("flag-column-missing", "no %s column" % flagc)
            continue
        flag = out[flagc].to_numpy().astype(bool)
        filled = ~supplied & np.isfinite(got)
        I.reach("cells.filled_checked", int(filled.sum()))
        if filled.any():
            needed_fill = True
        if (flag & supplied).any():
            i = int(np.argmax(flag & supplied))
            add("supplied-value-flagged:" + c, "%s at %s was supplied (%r) but is flagged as interpolated" % (c, out.index[i], vals[i]), column=c, n=int((flag & supplied).sum()))
        if (filled & ~flag).any():
            i = int(np.argmax(filled & ~flag))
            add("filled-value-not-flagged:" + c, "%s at %s was filled (%r) but is not flagged" % (c, out.index[i], got[i]), column=c, n=int((filled & ~flag).sum()))
        if (flag & ~np.isfinite(got)).any():
            add("flag-without-value:" + c, "a cell of %s is flagged interpolated but holds no value" % c, column=c)
        if not whole_empty and np.isnan(got).any():
            i = int(np.argmax(np.isnan(got)))
            add("value-left-missing:" + c, "%s at %s is still missing although the column had %d supplied values" % (c, out.index[i], int(have.sum())), column=c, n=int(np.isnan(got).sum()))
        if whole_empty and np.isfinite(got).any():
            add("value-invented-in-empty-column:" + c, "column %s was entirely empty but data.df holds values" % c, column=c)
    if needed_fill:
        keys.add("%s|%s|%s|%s|%s|%s" % (spec["cls"], tz, "S" if spec["days"] < 30 else "M" if spec["days"] < 200 else "L", "+".join(sorted(spec["defects"])),
                                      spec["ghi"], "el" if electric else "gas"))


ZONES = ["America/Chicago", "UTC", "Europe/London", "Australia/Sydney", "Asia/Kolkata", "America/Los_Angeles", "Europe/Berlin",
         "Pacific/Auckland", "Asia/Tokyo", "America/Phoenix", "America/New_York", "Africa/Johannesburg", "America/Anchorage",
         "Pacific/Honolulu", "America/Denver", "Europe/Athens", "America/Halifax", "Asia/Kathmandu", "America/St_Johns", "Australia/Adelaide",
         "Europe/Lisbon", "Asia/Dubai", "America/Mexico_City", "Europe/Moscow", "Asia/Shanghai", "America/Bogota",
         "Pacific/Fiji", "Asia/Karachi", "Europe/Dublin", "America/Sao_Paulo", "Asia/Tehran", "Africa/Casablanca", "America/Santiago",
         "America/Havana", "Africa/Cairo", "Asia/Beirut", "America/Asuncion", "Asia/Amman", "Atlantic/Azores"]
DEFECTS = ["nan_cells", "nan_runs", "edge_nan", "zeros", "absent_rows", "dups", "empty_ghi", "unsorted"]


def gen_cases(tier, seed):
    rng = np.random.default_rng([seed, 17])
    n = 96 if tier == "quick" else 1500
    nz = 12 if tier == "quick" else len(ZONES)
    cases = []
    for i in range(n):
        r = rng.random()
        days = int(rng.integers(4, 15)) if r < 0.35 else int(rng.integers(15, 90)) if r < 0.8 else int(rng.integers(90, 400)) if r < 0.97 else 731
        k = int(rng.integers(0, 5))
        defects = [str(x) for x in rng.choice(DEFECTS[:-1], size=k, replace=False)] if k else []
        if rng.random() < 0.03:
            defects.append("unsorted")
        ghi = bool(rng.random() < 0.4)
        if "empty_ghi" in defects and not ghi:
            defects.remove("empty_ghi")
        cases.append(dict(kind="dataset", tz=ZONES[i % nz], days=days, defects=defects, ghi=ghi, electric=bool(rng.random() < 0.7),
                          cls=str(rng.choice(["baseline", "reporting", "reporting-noobs"], p=[0.5, 0.3, 0.2])), n=i))
        if i % 4 == 1:
            # the documented alternative to a DatetimeIndex: timestamps in a tz-aware 'datetime' column (same rows, same order)
            cases[-1]["datetime_col"] = True
            if i % 8 == 1:
                if "dups" not in cases[-1]["defects"]:
                    cases[-1]["defects"] = [d_ for d_ in cases[-1]["defects"] if d_ != "unsorted"] + ["dups"]
                cases[-1]["days"] = max(cases[-1]["days"], 45)
    return cases


def run_case(spec):
    import opendsm.eemeter as em
    rng = rng_for(spec["seed"], ID, spec["n"])
    del VIOL[:]
    STAGE.update(autocorr=0, total=0)
    keys = set()
    df = make_input(rng, spec)
    df0 = df.copy(deep=True)
    cls = em.HourlyBaselineData if spec["cls"] == "baseline" else em.HourlyReportingData
    if spec.get("datetime_col"):
        df = df.rename_axis("datetime").reset_index()
        I.reach("entry.datetime_column")
        if "dups" in spec["defects"]:
            I.reach("entry.datetime_column_with_duplicates")
    try:
        data = cls(df, is_electricity_data=spec["electric"])
    except Exception as e:
        import traceback
        tb = traceback.extract_tb(e.__traceback__)
        where = "%s:%s" % (tb[-1].filename.split("/")[-1], tb[-1].name)
        midnight = _midnight_dst_zone(spec["tz"])
        add("constructor-raised:%s:%s%s" % (type(e).__name__, where, ":zone-with-dst-at-local-midnight" if midnight else ""),
            "well-formed hourly input rejected with %s: %s" % (type(e).__name__, str(e)[:200]), tz=spec["tz"])
        data = None
    if data is not None:
        check(df0, data, spec, keys)
    return dict(viol=[dict(v, spec={k: spec[k] for k in ("tz", "days", "defects", "ghi", "electric", "cls", "n")}) for v in VIOL],
                reach=dict(I.take_reach(), **{"fill.autocorr_cells": STAGE["autocorr"], "fill.fallback_cells": max(0, STAGE["total"] - STAGE["autocorr"])}),
                keys=sorted(keys), hist={"cls": spec["cls"], "defects": spec["defects"] or ["none"], "zone": spec["tz"]}, events=1)


def _midnight_dst_zone(tz):
    """does the zone have a UTC-offset change at local midnight (00:00 skipped or 23:00->00:00 repeated) 2018-2022?"""
    if tz == "UTC":
        return False
    z = zoneinfo.ZoneInfo(tz)
    t = int(dt.datetime(2018, 1, 1, tzinfo=dt.timezone.utc).timestamp())
    end = int(dt.datetime(2023, 1, 1, tzinfo=dt.timezone.utc).timestamp())
    prev = dt.datetime.fromtimestamp(t, z).utcoffset()
    while t < end:
        t += 3600
        d = dt.datetime.fromtimestamp(t, z)
        off = d.utcoffset()
        if off != prev:
            before = dt.datetime.fromtimestamp(t - 3600, z)
            if d.hour in (0, 1) and before.hour in (23, 0) and (d.date() != before.date() or d.hour == 0 or before.hour == 0):
                if d.hour == 1 and before.hour == 23:
                    return True          # 00:00 skipped
                if d.hour == 0 or before.hour == 0:
                    return True
            prev = off
    return False
