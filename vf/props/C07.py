"""C07 — observed and predicted usage are masked together so savings sums are unbiased.

Post-condition on the frame returned by the real DailyModel.predict / BillingModel.predict (wrapper at
the API boundary): row-wise finiteness of `observed` and `predicted` must agree when usage was
supplied, and column sums must equal row-wise savings, also on the billing aggregates.  pandas'
Copy-on-Write ChainedAssignmentError warnings raised inside the repository are recorded as a
supporting observation (a write that can never take effect)."""
import warnings

import numpy as np
import pandas as pd

from vf import instrument as I
from vf import dailybuild as B
from vf import fits as FT
from vf.gen import rng_for

ID = "C07"
TECHNIQUE = 'runtime monitoring: post-condition on every frame returned by the real daily/billing predict() (row-wise both-or-neither mask, column sums vs row-wise savings, aggregates vs daily rows) over defect patterns and model-reuse histories'
LEVEL = "exploration"
CASE_TIMEOUT = 1500
RULE = ("daily and billing models (parameter-built for every split layout and shape; a few fitted) x reporting sets with every pattern of "
        "{temperature NaN, +-inf, usage NaN} x {isolated, runs, first/last row, whole month, every day, no day with both temperature and usage} x billing aggregations {none, monthly, bimonthly} x "
        "what the same model object predicted before {nothing, a temperature-only set, a set with usage gaps, both}; "
        "every returned frame is judged.  distinct_nontrivial = distinct (family, split layout, defect pattern, aggregation) frames that "
        "contained at least one row without temperature or without usage.")
ASSUMPTIONS = ["'has a value' means finite (NaN and +-inf are missing)", "column sums skip missing values, as the documentation's df.sum() does"]
REQUIRED_REACH = {"post.predict_frame": 60, "clause.rowwise_mask": 40, "clause.sum_identity": 60, "rows.temperature_missing_with_usage": 100,
                  "rows.usage_missing": 50, "agg.monthly": 6, "agg.bimonthly": 6, "history.after_temperature_only": 12, "frame.usage_supplied_but_no_complete_day": 2, "frame.gas_month_with_zero_usage": 1, "clause.rowwise_mask_aggregated": 12, "model.imported_from_a_2_0_document": 6, "frame.handed_over_as_a_baseline_data_object": 12}

VIOL = []
CUR = {}
CHAINED = []


def add(mech, what, **kw):
    if sum(1 for v in VIOL if v["mech"] == mech) < 3:
        VIOL.append(dict(mech=mech, what=what, ctx=dict(CUR), **kw))


def judge_frame(p, fam, agg=None, daily=None):
    I.reach("post.predict_frame")
    if "observed" not in p.columns:
        return
    if CUR.get("no_complete_day") and agg is None:
        I.reach("frame.usage_supplied_but_no_complete_day")
    o = p["observed"].to_numpy(dtype=float)
    q = p["predicted"].to_numpy(dtype=float)
    fo, fq = np.isfinite(o), np.isfinite(q)
    if agg is None:
        T = p["temperature"].to_numpy(dtype=float)
        I.reach("rows.temperature_missing_with_usage", int((~np.isfinite(T) & CUR.get("usage_present_mask", fo)).sum()) if "usage_present_mask" in CUR else int((~np.isfinite(T)).sum()))
        I.reach("rows.usage_missing", int((~fo & np.isfinite(T)).sum()))
        I.reach("clause.rowwise_mask")
        bad = fo != fq
        if bad.any():
            i = int(np.argmax(bad))
            tmiss = ~np.isfinite(T)
            if (bad & tmiss & fo).any():
                j = int(np.argmax(bad & tmiss & fo))
                add("observed-not-masked-on-missing-temperature:" + fam,
                    "%d rows keep their observed usage although the day has no temperature and no prediction (e.g. %s: observed=%r temperature=%r predicted=%r)" % (
                        int((bad & tmiss & fo).sum()), p.index[j], o[j], T[j], q[j]), n=int((bad & tmiss & fo).sum()))
            other = bad & ~(tmiss & fo)
            if other.any():
                j = int(np.argmax(other))
                add("prediction-without-usage-or-usage-without-prediction:" + fam,
                    "row %s: observed=%r predicted=%r temperature=%r" % (p.index[j], o[j], q[j], T[j]), n=int(other.sum()))
    # sums: separately summed columns == row-wise savings
    I.reach("clause.sum_identity")
    if agg is None:
        s1 = np.nansum(np.where(fq, q, np.nan)) - np.nansum(np.where(fo, o, np.nan))
        both = fo & fq
        s2 = float((q[both] - o[both]).sum())
        scale = max(abs(np.nansum(np.where(fq, q, 0))), abs(np.nansum(np.where(fo, o, 0))), 1e-9)
        if abs(s1 - s2) > 1e-9 * scale:
            add("column-sums-differ-from-rowwise-savings:" + fam, "sum(predicted)-sum(observed) = %.6f but sum(predicted-observed) = %.6f" % (s1, s2), daily=True)
    else:
        I.reach("agg." + agg)
        # both or neither, period by period (a period none of whose days was evaluated may carry NaN or an empty total 0 in both columns)
        I.reach("clause.rowwise_mask_aggregated")
        has_o, has_q = fo & (o != 0), fq & (q != 0)
        dd, di = daily, daily.index
        for j in np.flatnonzero(has_o != has_q):
            # which daily rows fed this period?  a real zero total (gas: a month without usage) is a value, not a missing one
            lo_ = p.index[j]
            hi_ = p.index[j + 1] if j + 1 < len(p) else None
            rows = dd[(di >= lo_) & ((di < hi_) if hi_ is not None else True)]
            both_d = np.isfinite(rows["observed"].to_numpy(dtype=float)) & np.isfinite(rows["predicted"].to_numpy(dtype=float))
            if not both_d.any():
                continue
            if fo[j] and fq[j]:
                continue            # both present, one of them a genuine total of 0
            add("aggregated-period-has-one-column-only:" + fam, "%s period starting %s: observed=%r predicted=%r although %d of its days have both" % (agg, lo_, o[j], q[j], int(both_d.sum())), agg=agg)
            break
        d = daily
        do, dq = d["observed"].to_numpy(dtype=float), d["predicted"].to_numpy(dtype=float)
        both = np.isfinite(do) & np.isfinite(dq)
        s2 = float((dq[both] - do[both]).sum())
        s1 = float(np.nansum(q) - np.nansum(o))
        scale = max(abs(np.nansum(q)), abs(np.nansum(o)), 1e-9)
        if abs(s1 - s2) > 1e-9 * scale:
            add("aggregate-sums-differ-from-rowwise-savings:" + fam, "%s aggregate: sum(predicted)-sum(observed) = %.6f but daily row-wise savings = %.6f" % (agg, s1, s2), agg=agg)


_done = False


def setup_worker():
    global _done
    if _done:
        return
    import opendsm.eemeter  # noqa
    _done = True


def defect_frame(rng, tz, start, n, pattern, with_observed=True):
    df = FT.daily_reporting_df(rng, tz, start, n, with_observed=with_observed)
    T = df["temperature"].to_numpy().copy()
    bad = np.zeros(n, bool)
    for p in pattern:
        if p == "t_isolated":
            bad[rng.choice(n, size=max(1, n // 15), replace=False)] = True
        elif p == "t_run":
            a = int(rng.integers(0, n - 5))
            bad[a:a + int(rng.integers(2, 20))] = True
        elif p == "t_first":
            bad[0] = True
        elif p == "t_last":
            bad[-1] = True
        elif p == "t_month":
            m = int(df.index.month[int(rng.integers(0, n))])
            bad |= (df.index.month.values == m)
        elif p == "t_all":
            bad[:] = True
    vals = np.where(rng.random(n) < (0.3 if "t_inf" in pattern else 0.0), rng.choice([np.inf, -np.inf], n), np.nan)
    T[bad] = vals[bad]
    df["temperature"] = T
    if with_observed:
        o = df["observed"].to_numpy().copy()
        if "o_isolated" in pattern:
            o[rng.choice(n, size=max(1, n // 12), replace=False)] = np.nan
        if "o_run" in pattern:
            a = int(rng.integers(0, n - 5))
            o[a:a + int(rng.integers(2, 25))] = np.nan
        if "o_disjoint" in pattern:
            # usage only on days without temperature, temperature only on days without usage: no complete day at all
            o[~bad] = np.nan
        if "o_zero_month" in pattern:
            mth = int(df.index.month[int(rng.integers(0, n))])
            o[df.index.month.values == mth] = 0.0            # gas: a month without any usage is a month with usage 0
        if "o_zero" in pattern:
            o[rng.choice(n, size=3, replace=False)] = 0.0
        df["observed"] = o
    return df


PATTERNS = [["t_isolated"], ["t_run"], ["t_first"], ["t_last"], ["t_month"], ["t_isolated", "t_inf"], ["o_isolated"], ["o_run"],
            ["t_isolated", "o_isolated"], ["t_run", "o_run", "t_inf"], ["t_first", "t_last", "o_zero"], ["t_month", "o_run"], [], ["t_all"], ["t_run", "o_disjoint"], ["t_isolated", "t_month", "o_disjoint"], ["o_zero_month"], ["t_isolated", "o_zero_month"]]


# what the same model object was used for before the judged predict (state must not carry over)
PRIORS = [[], ["temp-only"], ["usage-gaps"], ["temp-only", "usage-gaps"], ["temp-only-monthly"]]


def gen_cases(tier, seed):
    q = tier == "quick"
    splits = B.all_split_strings()
    cases = []
    n = 3 * len(PATTERNS) if q else 600
    for i in range(n):
        # (family, pattern) enumerated as a product: every pattern meets the billing family (index arithmetic with a common period is not a product)
        cases.append(dict(kind="param", family="daily" if (i + i // len(PATTERNS)) % 3 else "billing", split=splits[i % len(splits)], pattern=PATTERNS[i % len(PATTERNS)],
                          tz=["America/Chicago", "UTC", "Australia/Sydney", "Europe/London", "Asia/Kolkata"][i % 5], n=i, with_observed=bool(i % 9 != 8),
                          prior=PRIORS[(i // 3) % len(PRIORS)]))
    ni = 8 if q else 72
    for i in range(ni):
        cases.append(dict(kind="imported", family="daily", kind_2_0=B.KINDS_2_0[i % 4], pattern=PATTERNS[(i * 7 + i // 4) % len(PATTERNS)], tz="UTC", n=5000 + i,
                          with_observed=bool(i % 5 != 4), prior=PRIORS[i % len(PRIORS)][:1] if i % 3 == 0 else []))
    nf = 4 if q else 40
    for i in range(nf):
        cases.append(dict(kind="fitted", family=["daily", "billing", "legacy"][i % 3], pattern=PATTERNS[(i * 5) % len(PATTERNS)],
                          tz=["America/Chicago", "Europe/Berlin"][i % 2], n=1000 + i, with_observed=True, timeout=1500, prior=PRIORS[(i + 1) % len(PRIORS)]))
    return cases


def run_case(spec):
    import opendsm.eemeter as em
    rng = rng_for(spec["seed"], ID, spec["n"])
    del VIOL[:]
    CUR.clear()
    CUR.update(family=spec["family"], pattern=spec["pattern"], split=spec.get("split"), tz=spec["tz"], n=spec["n"])
    keys = set()
    tz = spec["tz"]
    fam = spec["family"]
    chained = []
    with warnings.catch_warnings(record=True) as rec:
        warnings.simplefilter("always")
        if spec["kind"] == "param":
            st = B.settings_dump("billing" if fam == "billing" else "current")
            if fam == "billing":
                st["developer_mode"] = True
            subs = {}
            for comp in spec["split"].split("__"):
                tc = B.draw_tc(rng)
                subs[comp] = dict(coefficients=B.draw_coefficients(rng, B.SHAPES[int(rng.integers(0, 7))], tc, edge_p=0.1), temperature_constraints=tc,
                                  f_unc=float(rng.uniform(0.5, 3)))
            doc = B.make_doc(subs, st, tz=tz)
            m = (em.BillingModel if fam == "billing" else em.DailyModel).from_dict(doc)
        elif spec["kind"] == "imported":
            # the second way a daily model comes into being: a legacy (2.0) document (its uncertainty is infinite by construction)
            import json as _json
            doc2 = B.draw_2_0_doc(rng, spec["kind_2_0"])
            m = em.DailyModel.from_2_0_dict(doc2) if spec["n"] % 2 else em.DailyModel.from_2_0_json(_json.dumps(doc2))
            I.reach("model.imported_from_a_2_0_document")
        elif fam == "billing":
            m, _, _ = FT.fit_billing(rng, tz=tz)
        else:
            m, _, _ = FT.fit_daily(rng, profile="legacy" if fam == "legacy" else "current", tz=tz, weekend=0.3)
        # history: the same model object was used before, on reporting sets of another kind (temperature only / gappy usage)
        Rcls = em.BillingReportingData if fam == "billing" else em.DailyReportingData
        for step in spec.get("prior", []):
            pdf = defect_frame(rng, tz, "2018-03-01", 60, ["o_isolated", "t_isolated"] if step == "usage-gaps" else ["t_isolated"], with_observed=(step != "temp-only"))
            kw = {}
            if fam == "billing" and step == "temp-only-monthly":
                kw["aggregation"] = "monthly"
            try:
                pp = m.predict(Rcls(pdf, is_electricity_data=True), ignore_disqualification=True, **kw)
            except KeyError:
                continue
            I.reach("history.prior_predict")
            if step.startswith("temp-only"):
                I.reach("history.after_temperature_only")
            if not kw:
                judge_frame(pp, fam if fam == "billing" else "daily")
        start = str((pd.Timestamp("2019-01-01") + pd.Timedelta(days=int(rng.integers(0, 400)))).date())
        n = int(rng.choice([31, 90, 200, 366]))
        df = defect_frame(rng, tz, start, n, spec["pattern"], with_observed=spec["with_observed"])
        gas = "o_zero_month" in spec["pattern"]                       # non-electric meter: zero usage is usage
        if gas and spec["with_observed"]:
            I.reach("frame.gas_month_with_zero_usage")
        CUR["no_complete_day"] = bool(spec["with_observed"] and not (np.isfinite(df["temperature"].to_numpy(dtype=float)) & np.isfinite(df["observed"].to_numpy(dtype=float))).any())
        # predict() accepts baseline-type data objects too (a model evaluated on its own or another baseline): same frame, same clauses
        as_baseline = bool(spec["with_observed"] and spec["n"] % 3 == 2)
        if as_baseline:
            I.reach("frame.handed_over_as_a_baseline_data_object")
        if fam == "billing":
            try:
                data = (em.BillingBaselineData if as_baseline else em.BillingReportingData)(df, is_electricity_data=not gas)
            except Exception:
                if not as_baseline:
                    raise
                # whether the baseline class may refuse this frame is C10's business; the frame is judged through the reporting class instead
                I.reach("frame.baseline_class_refused_the_frame_not_judged_here")
                data = em.BillingReportingData(df, is_electricity_data=not gas)
            try:
                p = m.predict(data, ignore_disqualification=True)
            except Exception as e:
                add("predict-raised-instead-of-returning-a-masked-frame:billing:%s" % type(e).__name__, "predict raised %s: %s" % (type(e).__name__, str(e)[:120]))
                return dict(viol=[dict(v) for v in VIOL], reach=I.take_reach(), keys=sorted(keys), hist={"pattern": "+".join(spec["pattern"]) or "none", "family": fam}, events=1)
            judge_frame(p, fam)
            for agg in ("monthly", "bimonthly"):
                try:
                    pa = m.predict(data, aggregation=agg, ignore_disqualification=True)
                except KeyError:
                    if not spec["with_observed"]:
                        continue
                    raise
                judge_frame(pa, fam, agg=agg, daily=p)
                keys.add("%s|%s|%s|%s" % (fam, spec.get("split"), "+".join(spec["pattern"]), agg))
        else:
            try:
                try:
                    data = (em.DailyBaselineData if as_baseline else em.DailyReportingData)(df, is_electricity_data=not gas)
                except ValueError:
                    raise
                except Exception:
                    if not as_baseline:
                        raise
                    I.reach("frame.baseline_class_refused_the_frame_not_judged_here")
                    data = em.DailyReportingData(df, is_electricity_data=not gas)
            except ValueError:
                # so few usage days that the data class takes the set for billing data and refuses it: no frame to judge (the data class's business)
                I.reach("frame.set_rejected_by_the_data_class")
                data = None
            if data is not None:
                try:
                    p = m.predict(data, ignore_disqualification=True)
                except Exception as e:
                    # no frame at all: neither column can be summed (whether predict may refuse is C06's business; here it is recorded as a frame that never came back)
                    add("predict-raised-instead-of-returning-a-masked-frame:daily:%s" % type(e).__name__, "predict raised %s: %s" % (type(e).__name__, str(e)[:120]))
                    p = None
                if p is not None:
                    judge_frame(p, "daily")
        if spec["pattern"]:
            keys.add("%s|%s|%s|none|%s" % (fam, spec.get("split"), "+".join(spec["pattern"]), spec["with_observed"]))
    for w in rec:
        if "ChainedAssignment" in type(w.message).__name__ or "chained" in str(w.message).lower():
            if "opendsm" in str(w.filename):
                chained.append("%s:%s" % (str(w.filename).split("opendsm/")[-1], w.lineno))
    hist = {"chained_assignment_sites": {c: 1 for c in set(chained)}, "pattern": "+".join(spec["pattern"]) or "none", "family": fam}
    return dict(viol=[dict(v) for v in VIOL], reach=I.take_reach(), keys=sorted(keys), hist=hist, events=1 if fam != "billing" else 3)
