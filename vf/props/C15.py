"""C15 — a building that follows the model is recovered by the fit.

The oracle is the generator itself: a year of daily (or monthly-billed) usage is produced by a single
heating/cooling curve of the model family under the premises of the statement (which the generator
asserts and otherwise rejects, counting rejections); the real fit must reproduce the generating curve
within 5% of mean usage (normalised RMSE) on the baseline and on a second weather year, and must not
report a heating/cooling load above 5% of usage where the generator has none.  On a miss the error is
decomposed by sub-model and by inside/outside that sub-model's fitted temperature range."""
import math

import numpy as np
import pandas as pd

from vf import instrument as I
from vf import fits as FT
from vf.gen import rng_for, daily_weather

ID = "C15"
TECHNIQUE = 'runtime monitoring: generator-as-oracle: in-family buildings fitted by the real fit, prediction compared with the generating curve (NRMSE, phantom loads) on two weather years; misses attributed by deterministic classifiers from hooked optimiser state'
LEVEL = "exploration"
CASE_TIMEOUT = 2400
RULE = ("generating parameters drawn from the stated family (base load 5-50, slopes 0.3-3 per degree, heating balance 45-58F, cooling balance 64-75F, "
        "heating-only / cooling-only / both / flat, no weekday or season effect, multiplicative noise <= 1%), synthetic weather years (mean 45-65F, "
        "amplitude 18-30F, both hemispheres), 4+ timezones, daily current + legacy profiles and monthly-billed reads of the same year, on a fresh model object or on one that was fitted on another in-family building before; draws that "
        "miss a premise (>= 30 days in each active regime, balance points >= 5F inside the range) are rejected and counted.  "
        "distinct_nontrivial = distinct (profile, kind, zone, rounded generating parameters) accepted fits with at least one active regime.")
ASSUMPTIONS = ["normalised RMSE = RMSE(prediction - generating curve) / mean(generating curve) over the days with a prediction (billing: over complete calendar months, the resolution the building is billed at)",
               "the second weather year is a fresh draw with another mean / amplitude / noise, same timezone",
               "billing: the monthly-billed baseline is predicted on daily reporting data (the model is a daily curve)"]
REQUIRED_REACH = {"fit.accepted": 12, "clause.baseline_nrmse": 12, "clause.second_year_nrmse": 12, "clause.absent_load": 6, "fit.steep_single_corner": 10, "fit.single_regime_default_profile": 40, "fit.model_object_fitted_on_another_building_before": 8}

VIOL = []


def add(mech, what, **kw):
    VIOL.append(dict(mech=mech, what=what, **kw))


def setup_worker():
    from vf.props import C12
    C12.setup_worker()          # raw optimiser vectors on every OptimizedResult (used only to attribute a miss)


def curve(T, p):
    y = np.full(len(T), p["base"], dtype=float)
    if p["kind"] in ("both", "heating"):
        y = y + p["hs"] * np.maximum(p["hb"] - T, 0)
    if p["kind"] in ("both", "cooling"):
        y = y + p["cs"] * np.maximum(T - p["cb"], 0)
    return y


def draw(rng, kind, idx, steep=False):
    for attempt in range(50):
        T = np.round(daily_weather(rng, idx), 2)
        p = dict(kind=kind, base=float(rng.uniform(5, 50)), hb=float(rng.uniform(45, 58)), hs=float(rng.uniform(0.3, 3)),
                 cb=float(rng.uniform(64, 75)), cs=float(rng.uniform(0.3, 3)))
        if steep:      # corner of the stated family: small base load, steep slope (weather-driven building)
            p.update(base=float(rng.uniform(5, 12)), hs=float(rng.uniform(1.5, 3)), cs=float(rng.uniform(1.5, 3)))
        ok = True
        if kind in ("both", "heating"):
            ok &= (T < p["hb"]).sum() >= 30 and p["hb"] - T.min() >= 5 and T.max() - p["hb"] >= 5
        if kind in ("both", "cooling"):
            ok &= (T > p["cb"]).sum() >= 30 and T.max() - p["cb"] >= 5 and p["cb"] - T.min() >= 5
        if kind == "both":
            ok &= ((T >= p["hb"]) & (T <= p["cb"])).sum() >= 30
        if kind == "heating":
            ok &= (T >= p["hb"]).sum() >= 30
        if kind == "cooling":
            ok &= (T <= p["cb"]).sum() >= 30
        if ok:
            return T, p, attempt
    return None, None, 50


def gen_cases(tier, seed):
    q = tier == "quick"
    n = 28 if q else 600
    zones = ["America/Chicago", "UTC", "Australia/Sydney", "Europe/London", "Asia/Kolkata", "America/Los_Angeles"]
    cases = [dict(kind="fit", profile=["current", "legacy", "billing", "current"][i % 4], usage=["both", "heating", "cooling", "flat"][(i // 4) % 4 if i >= 4 else i % 4],
                  tz=zones[i % len(zones)], n=i, timeout=2400) for i in range(n)]
    ns = 24 if q else 300
    cases += [dict(kind="fit", profile=["current", "current", "legacy"][i % 3], usage=["heating", "cooling", "both"][(i // 3) % 3], tz=zones[i % len(zones)], steep=True,
                   n=100000 + i, timeout=2400) for i in range(ns)]
    # single-regime buildings under the default profile: the reduction of the full model to a one-sided one has several
    # data-dependent branches (zero slope on the idle side, smoothing under / over its 1% cut), each met by a fraction of such buildings
    for c in cases:
        if c["n"] % 3 == 1:
            c["reuse"] = True            # the model object was fitted on another building first
    nr = 64 if q else 400
    cases += [dict(kind="fit", profile="current", usage=["heating", "cooling"][i % 2], tz=zones[(i // 2) % len(zones)], n=300000 + i, timeout=2400) for i in range(nr)]
    cases += [dict(kind="fit", profile="current", usage="cooling", tz="America/Chicago", directed=d, n=200000 + d, timeout=2400) for d in ((4,) if q else (4, 0, 1, 2, 3, 5, 6, 7))]
    return cases


def run_case(spec):
    import opendsm.eemeter as em
    rng = rng_for(spec["seed"], ID, spec["n"])
    del VIOL[:]
    keys = set()
    tz, kind, prof = spec["tz"], spec["usage"], spec["profile"]
    start = pd.Timestamp("2018-01-01") + pd.Timedelta(days=int(rng.integers(0, 365)))
    idx = pd.date_range(start.tz_localize(tz), periods=365, freq="D")
    if spec.get("directed"):
        # the building and weather year in which the K3 consequence was first seen (cooling only, base 10, balance 66F, 2.0/F)
        start = pd.Timestamp("2019-01-01")
        idx = pd.date_range(start.tz_localize(tz), periods=365, freq="D")
        wr = np.random.default_rng(spec["directed"])
        T = 58 - 22 * np.cos(2 * np.pi * (np.arange(365) - 15) / 365) + wr.normal(0, 5, 365)
        p, rejected = dict(kind="cooling", base=10.0, hb=0.0, hs=0.0, cb=66.0, cs=2.0), 0
        if not ((T > 66).sum() >= 30 and (T <= 66).sum() >= 30 and T.max() - 66 >= 5 and 66 - T.min() >= 5):
            raise RuntimeError("premise of the directed case broken")
        I.reach("fit.directed_k3_corner")
    else:
        T, p, rejected = draw(rng, kind, idx, steep=bool(spec.get("steep")))
    I.reach("generator.rejected_draws", rejected)
    if T is None:
        return dict(viol=[], reach=I.take_reach(), keys=[], hist={"accepted": "no"}, events=0)
    y_true = curve(T, p)
    noise = float(rng.uniform(0, 0.01))
    y = y_true * (1 + rng.normal(0, noise, len(T)))
    if spec.get("directed"):
        noise = 0.01
        y = y_true * (1 + 0.01 * np.random.default_rng(spec["directed"] + 1000).uniform(-1, 1, len(y_true)))
    def earlier_building(model):
        """fleet processing: the same model object was fitted on ANOTHER in-family building before (other regime, other scale)"""
        r2 = np.random.default_rng([spec["seed"], 1500, spec["n"]])
        k2 = {"both": "heating", "heating": "cooling", "cooling": "heating", "flat": "both"}[kind]
        T_o, p_o, _ = draw(r2, k2, idx)
        if T_o is None:
            return model
        p_o["base"] = p_o["base"] * 4.0
        y_o = curve(T_o, p_o) * (1 + r2.normal(0, 0.005, len(T_o)))
        d_o = pd.DataFrame({"temperature": T_o, "observed": y_o}, index=idx)
        if prof == "billing":
            d_o.loc[~np.isin(np.arange(len(d_o)), np.arange(0, len(d_o), 30)), "observed"] = np.nan
            d_o.loc[d_o["observed"].notna(), "observed"] *= 30
            model.fit(em.BillingBaselineData(d_o.iloc[:331], is_electricity_data=True), ignore_disqualification=True)
        else:
            model.fit(em.DailyBaselineData(d_o, is_electricity_data=True), ignore_disqualification=True)
        I.reach("fit.model_object_fitted_on_another_building_before")
        return model
    reuse = bool(spec.get("reuse"))
    if prof == "billing":
        steps = []
        while sum(steps) < 365 - 33:
            steps.append(int(rng.integers(28, 34)))
        steps.append(365 - sum(steps)) if 25 <= 365 - sum(steps) <= 35 else steps.append(30)
        starts = np.concatenate([[0], np.cumsum(steps)])
        starts = starts[starts < 365]
        obs = pd.Series(np.nan, index=idx)
        for a, b in zip(starts[:-1], starts[1:]):
            obs.iloc[a] = y[a:b].sum()
        df = pd.DataFrame({"temperature": T, "observed": obs.values}, index=idx).iloc[:starts[-1]]
        data = em.BillingBaselineData(df, is_electricity_data=True)
        m = (earlier_building(em.BillingModel()) if reuse else em.BillingModel()).fit(data, ignore_disqualification=True)
        mk_rep = lambda d: em.BillingReportingData(d, is_electricity_data=True)
        used = slice(0, starts[-1])
    else:
        df = pd.DataFrame({"temperature": T, "observed": y}, index=idx)
        data = em.DailyBaselineData(df, is_electricity_data=True)
        m = (earlier_building(FT.make_daily_model(prof)) if reuse else FT.make_daily_model(prof)).fit(data, ignore_disqualification=True)
        mk_rep = lambda d: em.DailyReportingData(d, is_electricity_data=True)
        used = slice(0, 365)
    I.reach("fit.accepted")
    mean_use = float(np.mean(y_true))
    # C12-K1 consequence: a final single-slope component whose balance point was moved onto the segment limit after the
    # optimiser scored it elsewhere (stored curve != scored curve) - used only to attribute a miss
    k1 = []
    for name, comp in m.model.items():
        if comp.model_key == "c_hdd_tidd":
            bp = float(comp.x[0])
            on_limit = abs(bp - comp.T_min_seg) <= 1e-9 * max(1, abs(bp)) or abs(bp - comp.T_max_seg) <= 1e-9 * max(1, abs(bp))
            dd = float(np.max(np.abs(np.asarray(comp.eval(np.asarray(comp.T, float))[0]) - np.asarray(comp.model))))
            if on_limit and dd > 1e-6 * max(1.0, float(np.max(np.abs(comp.model)))):
                k1.append(name)
    # C12-K3 consequence: a selection-stage component of the chosen split whose raw optimum had its balance points reversed is read
    # back with heating and cooling exchanged (stored curve != scored curve); the final refit starts from that wrong vector
    k3 = []
    from vf.props import C12
    for name in str(m.best_combination).split("__"):
        comp = m.fit_components.get(name)
        if comp is None:
            continue
        sc = np.asarray(comp.model, dtype=float)
        dd = float(np.max(np.abs(np.asarray(comp.eval(np.asarray(comp.T, float))[0], dtype=float) - sc)))
        if dd > 1e-6 * max(1.0, float(np.max(np.abs(sc)))) and str(C12.classify_curve_mismatch(comp)).startswith("K3"):
            k3.append(name)
    tag = dict(profile=prof, kind=kind, tz=tz, params={k: (round(v, 3) if isinstance(v, float) else v) for k, v in p.items()}, noise=round(noise, 4),
               split=m.best_combination, types=[str(s.model_type.value) for s in m.params.submodels.values()])

    def evaluate(Tarr, index, label):
        rep = mk_rep(pd.DataFrame({"temperature": Tarr}, index=index))
        pr = m.predict(rep, ignore_disqualification=True)
        pr = pr.reindex(index)
        pred = pr["predicted"].to_numpy(dtype=float)
        truth = curve(Tarr, p)
        ok = np.isfinite(pred)
        err = pred[ok] - truth[ok]
        if prof == "billing":
            # a monthly-billed building is judged at the resolution it is billed at: complete calendar months
            ym = np.array([t.year * 12 + t.month for t in index])[ok]
            full = [g for g in np.unique(ym) if (ym == g).sum() >= 28]
            pm = np.array([pred[ok][ym == g].sum() for g in full])
            tm = np.array([truth[ok][ym == g].sum() for g in full])
            nrmse = math.sqrt(float(((pm - tm) ** 2).mean())) / float(tm.mean())
        else:
            nrmse = math.sqrt(float((err ** 2).mean())) / float(truth[ok].mean())
        I.reach("clause.%s_nrmse" % label)
        if nrmse > 0.05:
            # decompose: error mass inside / outside the fitted temperature range of the sub-model that predicted the day
            inside = np.zeros(ok.sum(), bool)
            splits = pr["model_split"].to_numpy()[ok]
            for key, sub in m.params.submodels.items():
                sel = splits == key
                tc = sub.temperature_constraints
                inside[sel] = (Tarr[ok][sel] >= tc["T_min"]) & (Tarr[ok][sel] <= tc["T_max"])
            sse_in, sse_out = float((err[inside] ** 2).sum()), float((err[~inside] ** 2).sum())
            frac_out = sse_out / max(sse_in + sse_out, 1e-300)
            nrmse_in = math.sqrt(sse_in / max(1, inside.sum())) / float(truth[ok].mean()) if inside.any() else 0.0
            if k3 and prof != "billing":
                add("not-recovered:selected-component-read-back-with-heating-and-cooling-exchanged",
                    "%s NRMSE %.3f: selection-stage component(s) %s of the chosen split were scored with reversed raw balance points and read back with the heating and "
                    "cooling sides exchanged (C12 mechanism K3); the final refit started from that vector and ended as %s" % (label, nrmse, k3, tag["types"]), nrmse=nrmse, **tag)
            elif k1 and prof != "billing":
                add("not-recovered:final-submodel-balance-point-moved-onto-segment-limit",
                    "%s NRMSE %.3f: final sub-model(s) %s store a balance point on the segment limit although the optimiser scored another curve (C12 mechanism K1)" % (label, nrmse, k1),
                    nrmse=nrmse, **tag)
            elif nrmse_in <= 0.05 and frac_out > 0.5 and len(m.params.submodels) > 1:
                add("not-recovered:error-outside-fitted-range-of-a-seasonal-submodel:" + label,
                    "%s NRMSE %.3f: %.0f%% of the squared error lies outside the fitted temperature range of the seasonal sub-model that predicted the day" % (label, nrmse, 100 * frac_out),
                    nrmse=nrmse, nrmse_inside=nrmse_in, **tag)
            elif prof == "billing":
                add("not-recovered:billing-daily-temperatures-regressed-on-period-mean-usage",
                    "billing %s: monthly NRMSE against the generating curve is %.3f (> 0.05): the billing fit regresses daily temperatures on the period's mean daily usage, "
                    "which flattens the curve" % (label, nrmse), nrmse=nrmse, **tag)
            else:
                # recorded mechanism (deterministic classifier on the witness): an unsplit one-sided fit under the legacy profile whose stored slope
                # is more than 5% off the generating slope although the noise is <= 1% (steep corner of the family)
                subs_ = list(m.params.submodels.values())
                c_ = subs_[0].coefficients if len(subs_) == 1 else None
                slope_fit = None if c_ is None else (abs(c_.cdd_beta) if kind == "cooling" and c_.cdd_beta is not None else abs(c_.hdd_beta) if kind == "heating" and c_.hdd_beta is not None else None)
                slope_true = p["cs"] if kind == "cooling" else p["hs"] if kind == "heating" else None
                if prof == "legacy" and slope_fit is not None and slope_true and tag["types"] in (["tidd_cdd"], ["hdd_tidd"]) and abs(slope_fit - slope_true) > 0.05 * slope_true \
                        and nrmse <= 0.10 and abs(float(c_.cdd_bp if kind == "cooling" else c_.hdd_bp) - (p["cb"] if kind == "cooling" else p["hb"])) <= 2.0:        # marginal miss, balance point about right: nothing else is attributed to it
                    add("not-recovered:legacy-unsplit-one-sided-fit-misestimates-the-slope", "%s NRMSE %.3f: the legacy fit stores a %s slope of %.3f for a generating slope of %.3f (noise %.4f); its own CVRMSE is %.3f" % (
                        label, nrmse, kind, slope_fit, slope_true, noise, float(m.error.get("CVRMSE", float("nan")))), nrmse=nrmse, **tag)
                else:
                    add("not-recovered:%s:%s:%s" % (label, prof, kind), "%s normalised RMSE against the generating curve is %.3f (> 0.05); inside fitted ranges %.3f" % (label, nrmse, nrmse_in),
                        nrmse=nrmse, nrmse_inside=nrmse_in, **tag)
        # absent loads
        use = float(np.nansum(pred))
        for load, present in (("heating_load", kind in ("both", "heating")), ("cooling_load", kind in ("both", "cooling"))):
            if not present:
                I.reach("clause.absent_load")
                frac = float(np.nansum(pr[load].to_numpy(dtype=float))) / max(use, 1e-12)
                if frac > 0.05:
                    add("phantom-%s:%s:%s" % (load, label, prof), "%s: reported %s is %.1f%% of usage although the generator has none" % (label, load, 100 * frac), fraction=frac, **tag)
        return nrmse
    n1 = evaluate(T[used], idx[used], "baseline")
    idx2 = pd.date_range((start + pd.Timedelta(days=365)).tz_localize(tz), periods=365, freq="D")
    T2 = np.round(daily_weather(rng, idx2), 2)
    n2 = evaluate(T2, idx2, "second_year")
    if kind != "flat":
        keys.add("%s|%s|%s|%.0f|%.1f|%.1f|%.0f|%.0f" % (prof, kind, tz, p["base"], p["hs"], p["cs"], p["hb"], p["cb"]))
    if spec.get("steep"):
        I.reach("fit.steep_single_corner")
    if spec["n"] >= 300000:
        I.reach("fit.single_regime_default_profile")
    hist = {"nrmse_baseline": "%.0e" % max(n1, 1e-9), "nrmse_second_year": "%.0e" % max(n2, 1e-9), "split": m.best_combination, "profile/kind": prof + "/" + kind}
    return dict(viol=[dict(v) for v in VIOL], reach=I.take_reach(), keys=sorted(keys), hist=hist, events=3)
