"""C03 — fitting is reproducible: same data and settings give the same model.

The real fit is executed for the same (data, settings, seed) in different *contexts* and the digests of
to_json() and of two prediction frames are compared: same process twice; fresh subprocess; subprocess
warmed by unrelated daily/hourly/billing fits and predicts in random order; perturbed numpy/random
global RNG state; PYTHONHASHSEED 0 vs random; OMP_NUM_THREADS unset/1/4; cold numba cache; the meter
fitted inside a batch in permuted order; 1, 4 and 16 identical fits running concurrently.  The digests
of the *inputs* are compared too (guards the harness itself)."""
import json
import os
import shutil
import subprocess
import tempfile

from vf import boot
from vf import instrument as I
from vf import fits as FT

ID = "C03"
TECHNIQUE = 'runtime monitoring: offline checker over recorded digests of the same real fit executed in different contexts (fresh/warmed/concurrent processes, hash seeds, BLAS threads, perturbed global RNG, batch orders, near-duplicate meters, re-used model objects)'
LEVEL = "exploration"
CASE_TIMEOUT = 3600
RULE = ("datasets per family (daily current+legacy+developer, billing, hourly with explicit seed (incl. seed 0 on meters with irregular load shapes and with a supplemental column) solar/non-solar/developer, CalTRACK hourly) x contexts "
        "{in-process twice, fresh process, warmed process, process that first used the same family with other configurations (supplemental columns, other bins/scaler, custom maps, developer profiles), perturbed global RNG, PYTHONHASHSEED random, OMP_NUM_THREADS unset/1/4, cold numba cache, "
        "batch order permuted, 4 and 16 concurrent identical fits}; oracle: all digests of a dataset are equal.  distinct_nontrivial = distinct "
        "(dataset, context) executions beyond the first of each dataset.")
ASSUMPTIONS = ["same machine, same library builds: cross-platform bit-equality is not claimed",
               "hourly models are fitted with an explicit seed (seed=None draws from the global RNG and is outside the statement)"]
REQUIRED_REACH = {"dataset.hourly_seed_0": 2, "dataset.compared": 6, "context.executions": 30, "context.fresh_process": 6, "context.warmed": 4, "context.hashseed_random": 4,
                  "context.concurrent": 2, "context.batch_permuted": 2, "context.omp4": 2, "context.near_duplicates": 4, "context.other_configurations_first": 6, "context.hashseed_fixed_other": 18, "context.serialised_after_other_fits": 6}
REQUIRED_REACH_THOROUGH = {"context.cold_numba_cache": 1}

VIOL = []


def add(mech, what, **kw):
    VIOL.append(dict(mech=mech, what=what, **kw))


def run_ctx(spec, ctx, env_extra=None, timeout=1500):
    env = boot.worker_env(env_extra)
    for k, v in (env_extra or {}).items():
        if v is None:
            env.pop(k, None)
    return subprocess.Popen([boot.PY, "-m", "vf.c03_ctx", json.dumps(spec), json.dumps(ctx)], env=env, cwd=boot.ROOT,
                            stdout=subprocess.PIPE, stderr=subprocess.PIPE, text=True)


def collect(p, timeout=1500):
    try:
        out, err = p.communicate(timeout=timeout)
    except subprocess.TimeoutExpired:
        p.kill()
        return None, "timeout"
    for line in out.splitlines():
        if line.startswith("@@C03 "):
            return json.loads(line[6:]), None
    return None, (err or out)[-600:]


def contexts(spec, tier):
    """single-factor contexts (so a difference is attributed to one factor) plus one combined context"""
    q = tier == "quick"
    T4 = {"OMP_NUM_THREADS": "4", "OPENBLAS_NUM_THREADS": "4", "MKL_NUM_THREADS": "4"}
    cs = [("fresh-process", dict(repeat=2), {"PYTHONHASHSEED": "0"}),
          ("hashseed-random", dict(), {"PYTHONHASHSEED": "random"}),
          # fixed, different hash seeds as well: with 'random' alone an order that depends on string hashes agrees with the reference half of the time
          ("hashseed-one", dict(), {"PYTHONHASHSEED": "1"}), ("hashseed-three", dict(), {"PYTHONHASHSEED": "3"}), ("hashseed-five", dict(), {"PYTHONHASHSEED": "5"}),
          ("blas-threads-4", dict(), dict(T4, PYTHONHASHSEED="0")),
          ("warmed", dict(warm=2, ctx_seed=spec["n"] + 5), {"PYTHONHASHSEED": "0"}),
          ("after-other-configurations-of-the-family", dict(warm=1, other_configurations=True, ctx_seed=spec["n"] + 13), {"PYTHONHASHSEED": "0"}),
          ("perturbed-global-rng", dict(perturb_rng=True, ctx_seed=spec["n"] + 77), {"PYTHONHASHSEED": "0"}),
          ("batch-permuted", dict(batch=[2, "TARGET", 1] if spec["n"] % 2 else [1, 2, "TARGET"]), {"PYTHONHASHSEED": "0"}),
          ("after-near-duplicate-meters", dict(near_dups=6, ctx_seed=spec["n"] + 31), {"PYTHONHASHSEED": "0"}),
          ("model-object-reused-after-another-meter", dict(reuse_model_object=True), {"PYTHONHASHSEED": "0"}),
          ("serialised-after-other-meters-were-fitted", dict(serialise_later=True), {"PYTHONHASHSEED": "0"})]
    if not q:
        cs += [("threads-unset", dict(), {"OMP_NUM_THREADS": None, "OPENBLAS_NUM_THREADS": None, "MKL_NUM_THREADS": None, "PYTHONHASHSEED": "0"}),
               ("combined", dict(warm=4, perturb_rng=True, ctx_seed=spec["n"] + 9, batch=["TARGET", 2, 1]), dict(T4, PYTHONHASHSEED="random"))]
    return cs


def run_case(spec):
    del VIOL[:]
    keys = set()
    tier = spec["tier"]
    results = {}
    # in-process twice (this worker is itself a process with its own history)
    from vf import c03_ctx
    fam, bdf, rdf = c03_ctx.build(spec)
    a = c03_ctx.digest_fit(spec, fam, bdf, rdf)
    b = c03_ctx.digest_fit(spec, fam, bdf, rdf)
    results["in-process-1"], results["in-process-2"] = a, b
    I.reach("context.executions", 2)
    procs = []
    for name, ctx, env in contexts(spec, tier):
        procs.append((name, run_ctx(spec, ctx, env)))
        if "fresh" in name:
            I.reach("context.fresh_process")
        if "warmed" in name:
            I.reach("context.warmed")
        if "other-configurations" in name:
            I.reach("context.other_configurations_first")
        if env.get("PYTHONHASHSEED") == "random":
            I.reach("context.hashseed_random")
        if env.get("PYTHONHASHSEED") in ("1", "3", "5"):
            I.reach("context.hashseed_fixed_other")
        if "threads-4" in name or name == "combined":
            I.reach("context.omp4")
        if "batch" in name:
            I.reach("context.batch_permuted")
        if "near-duplicate" in name:
            I.reach("context.near_duplicates")
        if "serialised-after" in name:
            I.reach("context.serialised_after_other_fits")
    conc = spec.get("concurrent", 0)
    for i in range(conc):
        procs.append(("concurrent-%d-of-%d" % (i + 1, conc), run_ctx(spec, dict(), {"PYTHONHASHSEED": "0"})))
    if conc:
        I.reach("context.concurrent")
    tmp = None
    if spec.get("cold_cache"):
        tmp = tempfile.mkdtemp(prefix="c03_numba_", dir=boot.CACHE)
        procs.append(("cold-numba-cache", run_ctx(spec, dict(), {"NUMBA_CACHE_DIR": tmp, "PYTHONHASHSEED": "0"})))
        I.reach("context.cold_numba_cache")
    for name, p in procs:
        res, err = collect(p)
        if res is None:
            raise RuntimeError("context %s of %s did not finish: %s" % (name, spec["family"], err))
        for j, r in enumerate(res):
            results["%s#%d" % (name, j)] = r
            I.reach("context.executions")
    if tmp:
        shutil.rmtree(tmp, ignore_errors=True)
    I.reach("dataset.compared")
    if FT.Family(spec["family"]).kind == "hourly" and spec["mseed"] == 0:
        I.reach("dataset.hourly_seed_0")
    ref_name = "in-process-1"
    ref = results[ref_name]
    for name, r in results.items():
        if r["input"] != ref["input"]:
            raise RuntimeError("harness defect: context %s was given other input data" % name)
        diffs = [k for k in ("json", "pred", "pred_baseline") if r[k] != ref[k]]
        if r.get("raised") or ref.get("raised"):
            I.reach("context.fit_raised")
        if diffs:
            ctxname = name.split("#")[0].split("-of-")[0]
            add("fit-not-reproducible:%s:%s" % (FT.Family(spec["family"]).kind, ctxname.rstrip("-0123456789")),
                "%s: context %r gives another %s than %r (json sha1 %s vs %s)" % (spec["family"], name, "/".join(diffs), ref_name, r["json"][:10], ref["json"][:10]),
                family=spec["family"], context=name, differs=diffs)
        if name != ref_name:
            keys.add("%s|%d|%s" % (spec["family"], spec["n"], name))
    return dict(viol=[dict(v) for v in VIOL[:6]], reach=I.take_reach(), keys=sorted(keys), hist={"family": spec["family"], "contexts": sorted(set(k.split("#")[0] for k in results))},
                events=len(results))


def gen_cases(tier, seed):
    q = tier == "quick"
    # the last two: seed-sensitive meters (irregular load shapes / a supplemental column) fitted with the legal explicit seed 0
    # ... and a degenerate meter: a timer-driven load whose (month, weekday) load shapes are all identical (clustering has nothing to separate)
    fams = ["daily:current", "daily:legacy", "billing", "hourly:default", "hourly:default:ghi", "caltrack", "hourly:default:irregular", "hourly:supp", "hourly:default:timer", "hourly:default:edgegaps"]
    # (the last one: missing hours within a day of the first / last timestamp - the lag/lead interpolation works at the edge of its arrays)
    if not q:
        fams = fams + ["daily:dev-alpha-all", "daily:custom-maps", "hourly:robust", "hourly:adaptive", "hourly:clusters6", "daily:current", "daily:current", "hourly:default",
                       "billing", "daily:legacy", "hourly:bins8:ghi", "daily:dev-nofinal", "caltrack", "daily:dev-c_hdd", "hourly:noedge", "daily:legacy-dev-splits", "billing", "daily:current"]
    zones = ["America/Chicago", "UTC", "Australia/Sydney", "Europe/London"]
    cases = []
    for i, f in enumerate(fams):
        c = dict(kind="dataset", family=f, tz=zones[i % len(zones)], n=i, dseed=seed, mseed=0 if (i in (6, 7) or i % 5 == 4) else 11 + i, timeout=3600)
        if i == 0:
            c["concurrent"] = 4 if q else 16
        if i == 3:
            c["concurrent"] = 4
        if i == 1 and not q:
            c["cold_cache"] = True
        if i == 0 and q:
            c["cold_cache"] = False
        cases.append(c)
    return cases
