"""C02 — using a model or a data object never changes it (no hidden side effects).

State-fingerprint monitors at the API boundary of the real classes:
  * serialised model (to_json) before/after every predict of a random history of predicts over
    reporting sets of different span; prediction for a dataset compared bit-for-bit with the same call
    on a pristine deep copy taken right after fit (the sequential model: predict is a pure function of
    fitted state and dataset);
  * deep fingerprint of data objects across fit/predict, of caller-owned frames/Series across the data
    class constructors / from_series;
  * aliasing probe: in-place writes into frames handed out by .df / predict, then the owner is
    fingerprinted again and a second hand-out / later prediction compared."""
import copy

import numpy as np
import pandas as pd

from vf import instrument as I
from vf import fits as FT
from vf.gen import rng_for

ID = "C02"
TECHNIQUE = 'runtime monitoring: deep bit-exact state fingerprints (model JSON, data objects, caller frames) taken before/after every real fit/predict/constructor call over random call histories; history-vs-pristine-copy differential; aliasing probes on handed-out frames'
LEVEL = "exploration"
CASE_TIMEOUT = 3000
RULE = ("one fitted model per case (all families/profiles) x a random history of predicts over reporting sets of span {1 day, week, month, partial year, "
        "year} with/without observed usage (and with/without irradiance for hourly), interleaved with fits of other meters and global RNG "
        "perturbations; every data-class entry point (frame, from_series, datetime column, reporting without usage, billing reads).  "
        "distinct_nontrivial = distinct (family, history of (span, observed?) pairs) with at least two different spans.")
ASSUMPTIONS = ["DatetimeIndex.freq of caller objects is recorded, not judged (cache-like metadata that pandas only lets agree with the values)",
               "model state is judged on what the statement names: the serialised form and the predictions (private caches are recorded, not judged)"]
REQUIRED_REACH = {"predict.json_before_after": 25, "predict.history_vs_pristine": 25, "data.fit_fingerprint": 6, "data.predict_fingerprint": 25, "fit.model_added_disqualification": 1, "fit.model_added_disqualification_to_an_already_disqualified_baseline": 1, "data.second_fit_on_the_same_data_object": 3, "sets.usage_bearing_with_weather_gaps": 20, "predict.over_a_baseline_type_data_object": 10,
                  "ctor.caller_frame_fingerprint": 20, "alias.df_probe": 6, "alias.prediction_probe": 6,
                  "history.other_model_of_another_configuration_used_in_between": 6, "alias.view_read": 10, "data.weighted_billing_model_used": 1}

VIOL = []
CUR = {}
FREQ_OBS = []


def add(mech, what, **kw):
    if sum(1 for v in VIOL if v["mech"] == mech) < 3:
        VIOL.append(dict(mech=mech, what=what, family=CUR.get("family"), **kw))


def data_fp(data):
    d = {}
    df = data.df
    d.update(I.fp(df, "df"))
    d.update(I.fp([w.json() for w in data.warnings], "warnings"))
    d.update(I.fp([w.json() for w in data.disqualification], "disqualification"))
    if hasattr(data, "_df"):
        d.update(I.fp(data._df, "_df"))
    return d


def model_json(fam, m):
    return m.to_json()


SPANS = {"day": 1, "week": 7, "month": 31, "partial": 140, "year": 365}


def other_meter(fam, rng, tz):
    """Another model of the same family with ANOTHER configuration is built, fitted and used in between (fleet processing):
    nothing of it may reach the model under observation."""
    import opendsm.eemeter as em
    if fam.kind in ("daily", "billing"):
        st = {"weekday_weekend": {"monday": "weekend", "sunday": "weekday"}, "season": {"april": "winter", "october": "summer"}}
        df = FT.daily_baseline_df(rng, tz=tz, kind="both", n=120, noise=0.05, weekend=0.4)
        m2 = em.DailyModel(settings=st).fit(em.DailyBaselineData(df, is_electricity_data=True), ignore_disqualification=True)
        m2.predict(em.DailyReportingData(FT.daily_reporting_df(rng, tz, "2019-03-01", 40), is_electricity_data=True), ignore_disqualification=True)
        em.BillingModel()
        em.DailyModel.from_json(m2.to_json())        # the model constructed LAST has another weekday/season map than the one under observation
    elif fam.kind == "hourly":
        f2 = FT.Family("hourly:bins8:ghi" if not fam.ghi else "hourly:robust")
        b2 = f2.baseline_frame(rng, tz=tz, days=135)
        m2 = f2.fit(f2.new_model(seed=int(rng.integers(0, 99))), f2.baseline_data(b2))
        f2.predict(m2, f2.reporting_data(f2.reporting_frame(rng, tz, "2019-02-01", 10)))
    else:
        f2 = FT.Family("caltrack")
        b2 = f2.baseline_frame(rng, tz=tz, days=120)
        m2 = f2.fit(f2.new_model(), f2.baseline_data(b2))
        f2.predict(m2, f2.reporting_data(f2.reporting_frame(rng, tz, "2019-06-01", 10)))


def run_model_case(spec, keys):
    fam = FT.Family(spec["family"])
    CUR["family"] = spec["family"]
    rng = rng_for(spec["seed"], ID, spec["n"])
    tz = spec["tz"]
    bdf = fam.baseline_frame(rng, tz=tz, days=spec.get("baseline_days", 365))
    if spec.get("poor_fit"):
        # usage unrelated to weather: the model adds its own poor-fit disqualification during fit
        col = bdf["observed"]
        vals = np.exp(rng.normal(0.0, 1.5, len(bdf)))            # heavy tail: CVRMSE ~ 3, RMSE/IQR ~ 3.7
        bdf["observed"] = np.where(col.notna(), vals * (float(col.mean()) if fam.kind == "billing" else 1.0), np.nan)
    bdf0 = bdf.copy(deep=True)
    f0 = I.fp(bdf)
    data = fam.baseline_data(bdf)
    I.reach("ctor.caller_frame_fingerprint")
    if I.fp(bdf) != f0:
        add("constructor-modified-callers-frame:" + fam.kind, "%s baseline data class modified the caller's DataFrame: %s" % (fam.kind, I.fp_diff(f0, I.fp(bdf))), entry="frame")
        bdf = bdf0.copy(deep=True)
    d_before = data_fp(data)
    m = fam.fit(fam.new_model(seed=spec["n"] + 1), data)
    I.reach("data.fit_fingerprint")
    if len(getattr(m, "disqualification", [])) > len(data.disqualification) or any("model_fit" in w.qualified_name for w in getattr(m, "disqualification", [])):
        I.reach("fit.model_added_disqualification")
    d_after = data_fp(data)
    if d_after != d_before:
        add("fit-modified-data-object:" + fam.kind, "fit() changed the baseline data object: %s" % I.fp_diff(d_before, d_after), diff=I.fp_diff(d_before, d_after))
    if len(data.disqualification) and any("model_fit" in w.qualified_name for w in getattr(m, "disqualification", [])):
        I.reach("fit.model_added_disqualification_to_an_already_disqualified_baseline")
    if spec.get("poor_fit"):
        # a second model fitted on the same data object: neither the data object nor the first model's own lists change
        m_lists = ([w.json() for w in getattr(m, "warnings", [])], [w.json() for w in getattr(m, "disqualification", [])])
        try:
            fam.fit(fam.new_model(seed=spec["n"] + 2), data)
            I.reach("data.second_fit_on_the_same_data_object")
            if data_fp(data) != d_before:
                add("fit-modified-data-object:%s:second-fit" % fam.kind, "a second fit() on the same baseline data object changed it: %s" % I.fp_diff(d_before, data_fp(data)))
            if ([w.json() for w in getattr(m, "warnings", [])], [w.json() for w in getattr(m, "disqualification", [])]) != m_lists:
                add("fit-of-another-model-changed-this-models-lists:" + fam.kind, "fitting a second model on the same data object changed the first model's warnings/disqualification")
        except Exception:
            I.reach("data.second_fit_raised_not_judged_here")
    try:
        js0 = model_json(fam, m)
    except Exception as e:
        add("to_json-raised:" + fam.kind + ":" + type(e).__name__, "to_json() of a freshly fitted model raised %s: %s" % (type(e).__name__, str(e)[:160]))
        js0 = None
    pristine = copy.deepcopy(m)
    # ---- reporting sets ----------------------------------------------------------------------------------
    sets = {}
    start0 = pd.Timestamp("2019-01-01") + pd.Timedelta(days=int(rng.integers(0, 200)))
    for name, days in SPANS.items():
        st_year = str((start0 + pd.Timedelta(days=int(rng.integers(0, 300)))).date())
        for obs in (True, False):
            st = st_year if name == "year" else str((start0 + pd.Timedelta(days=int(rng.integers(0, 300)))).date())
            sets[(name, obs)] = fam.reporting_frame(rng, tz, st, days, with_observed=obs)
            if fam.kind == "hourly" and not fam.ghi and name in ("week", "month"):
                # reporting data carrying irradiance for a model fitted without it (the model emits a mismatch notice)
                g = FT.synth_hourly(tz=tz, start=st, days=days, seed=rng, ghi=True)["ghi"]
                sets[(name, obs)] = sets[(name, obs)].assign(ghi=g.values)
    # weather gaps in the sets that carry usage (hours / days without a temperature value): what predict does about them must not reach the
    # data object it was handed
    for key_ in (("month", True), ("partial", True), ("year", True)):
        fr_ = sets[key_]
        kk_ = rng.choice(len(fr_), size=max(2, len(fr_) // 60), replace=False)
        fr_.iloc[kk_, fr_.columns.get_loc("temperature")] = np.nan
    I.reach("sets.usage_bearing_with_weather_gaps", 3)
    L = spec["length"]
    order = [list(sets)[int(i)] for i in rng.integers(0, len(sets), L)]
    if ("year", True) not in order:
        order.append(("year", True))
    if fam.kind == "hourly":
        order = [("week", False), ("year", True), ("year", False), ("year", True)] + order     # short set first; same calendar with/without usage
    # predict() accepts baseline-type data objects too (another year wrapped in the baseline class): the 'partial' set with usage is handed
    # over that way, every time it occurs
    def mk(key_, frame_):
        if key_ == ("partial", True):
            I.reach("predict.over_a_baseline_type_data_object")
            return fam.baseline_data(frame_)
        return fam.reporting_data(frame_)
    if ("partial", True) not in order:
        order.insert(min(1, len(order)), ("partial", True))
    # references first: the same calls on pristine copies, BEFORE any other model exists in this process
    ref_cache = {}
    for key in dict.fromkeys(order):
        try:
            ref_cache[key] = fam.predict(copy.deepcopy(pristine), mk(key, sets[key].copy(deep=True)))
        except Exception:
            ref_cache[key] = None
    for step, key in enumerate(order):
        rdf = sets[key]
        rf0 = I.fp(rdf)
        rdata = mk(key, rdf)
        I.reach("ctor.caller_frame_fingerprint")
        if I.fp(rdf) != rf0:
            add("constructor-modified-callers-frame:" + fam.kind, "%s reporting data class modified the caller's DataFrame: %s" % (fam.kind, I.fp_diff(rf0, I.fp(rdf))), entry="frame")
            sets[key] = rdf = fam.reporting_frame(rng, tz, str(rdf.index[0].date()), SPANS[key[0]], with_observed=key[1])
            rdata = mk(key, rdf)
        rd_before = data_fp(rdata)
        if step % 3 == 1:                                           # interleave: global state perturbation
            np.random.seed(int(rng.integers(0, 2 ** 31)))
            np.random.random(7)
        if step % 3 == 2:                                           # interleave: another meter, another configuration, same process
            try:
                other_meter(fam, rng, tz)
                I.reach("history.other_model_of_another_configuration_used_in_between")
            except Exception:
                I.reach("history.other_meter_raised_not_judged_here")      # the other meter's own failure is not this property's business
        try:
            p = fam.predict(m, rdata)
        except Exception as e:
            # an exception is not a side effect: whether predict may refuse this input is C04/C06's business; what C02 still
            # judges is that the failed call left the model and the data object unchanged
            I.reach("predict.raised_not_judged_here")
            try:
                js_after = model_json(fam, m) if js0 is not None else None
            except Exception as e2:
                js_after = None
                add("failed-predict-left-the-model-unserialisable:%s:%s" % (fam.kind, type(e2).__name__),
                    "a predict call that raised %s (%s) left the model in a state in which to_json() raises %s: %s" % (type(e).__name__, str(e)[:120], type(e2).__name__, str(e2)[:120]),
                    history=[list(k) for k in order[:step + 1]])
                m = copy.deepcopy(pristine)
            if js0 is not None and js_after is not None and js_after != js0:
                add("failed-predict-changed-serialised-model:" + fam.kind, "a predict call that raised %s left the model changed" % type(e).__name__)
            if data_fp(rdata) != rd_before:
                add("failed-predict-modified-data-object:" + fam.kind, "a predict call that raised %s left the reporting data object changed" % type(e).__name__)
            continue
        I.reach("data.predict_fingerprint")
        rd_after = data_fp(rdata)
        if rd_after != rd_before:
            add("predict-modified-data-object:" + fam.kind, "predict() changed the reporting data object: %s" % I.fp_diff(rd_before, rd_after))
        if js0 is not None:
            I.reach("predict.json_before_after")
            js1 = model_json(fam, m)
            if js1 != js0:
                import json
                a, b = json.loads(js0), json.loads(js1)
                diff = [k for k in a if a.get(k) != b.get(k)]
                add("predict-changed-serialised-model:%s:%s" % (fam.kind, ",".join(sorted(diff))[:80]),
                    "to_json() differs after predict on a %s set: fields %s" % (key[0], diff), fields=diff)
                js0 = js1            # report each change once
        # same call on the pristine copy (made before anything else happened in this process)
        ref = ref_cache.get(key)
        if ref is not None:
            I.reach("predict.history_vs_pristine")
            dif = I.frame_equal_bits(ref, p)
            if dif:
                add("prediction-depends-on-earlier-predicts:" + fam.kind,
                    "predict(%s set) after history %s differs from the same call on a pristine copy of the model: %s" % (key[0], [k[0] for k in order[:step]], dif[:4]),
                    history=[list(k) for k in order[:step + 1]], diff=dif[:4])
        # ---- aliasing probes on the returned frame --------------------------------------------------------
        if step < 2:
            I.reach("alias.prediction_probe")
            owner_before = data_fp(rdata)
            try:
                p.iloc[0, 0] = -12345.0
                p["__probe__"] = 1.0
                p.drop(p.index[:1], inplace=True)
            except Exception:
                pass
            if data_fp(rdata) != owner_before:
                add("prediction-frame-aliases-data-object:" + fam.kind, "writing into the frame returned by predict() changed the reporting data object")
            p2 = fam.predict(copy.deepcopy(pristine), rdata)
            if ref is not None and I.frame_equal_bits(ref, p2):
                add("prediction-frame-aliases-later-prediction:" + fam.kind, "writing into a returned prediction changed a later prediction of the same data")
    # ---- every public view of the data objects: reading it changes nothing, what it hands out is an independent copy ----------
    for dobj, dname in ((data, "baseline"), (fam.reporting_data(sets[("month", True)].copy(deep=True)), "reporting")):
        for attr in [a for a in dir(type(dobj)) if not a.startswith("_") and isinstance(getattr(type(dobj), a, None), property)]:
            before = data_fp(dobj)
            try:
                h1 = getattr(dobj, attr)
                h2 = getattr(dobj, attr)
            except Exception:
                continue
            I.reach("alias.view_read")
            if data_fp(dobj) != before:
                add("reading-a-view-changed-the-data-object:%s:%s" % (fam.kind, attr), "reading %s.%s changed the %s data object: %s" % (type(dobj).__name__, attr, dname, I.fp_diff(before, data_fp(dobj))), attr=attr)
                before = data_fp(dobj)
            if isinstance(h1, (pd.DataFrame, pd.Series)) and len(h1):
                try:
                    if isinstance(h1, pd.DataFrame):
                        h1.iloc[0, 0] = h1.iloc[0, 0]
                        h1["__probe__"] = 3.0
                    h1.drop(h1.index[:1], inplace=True)
                except Exception:
                    pass
                if data_fp(dobj) != before and attr != "df":
                    add("view-handout-aliases-data-object:%s:%s" % (fam.kind, attr), "writing into the frame handed out by .%s changed the data object" % attr, attr=attr)
    if fam.kind == "billing":
        # the weighted billing model reads the billing view of the data objects: they stay as they were
        import opendsm.eemeter as em
        import warnings as _w
        d2, r2 = copy.deepcopy(data), fam.reporting_data(sets[("partial", True)].copy(deep=True))
        b2, rb2 = data_fp(d2), data_fp(r2)
        try:
            with _w.catch_warnings():
                _w.simplefilter("ignore")
                wm = em.BillingWeightedModel().fit(d2, ignore_disqualification=True)
                wm.predict(r2, ignore_disqualification=True)
            I.reach("data.weighted_billing_model_used")
            if data_fp(d2) != b2:
                add("fit-modified-data-object:billing:weighted-model", "BillingWeightedModel.fit changed the baseline data object: %s" % I.fp_diff(b2, data_fp(d2)))
            if data_fp(r2) != rb2:
                add("predict-modified-data-object:billing:weighted-model", "BillingWeightedModel.predict changed the reporting data object: %s" % I.fp_diff(rb2, data_fp(r2)))
        except Exception:
            I.reach("data.weighted_billing_model_raised_not_judged_here")
    # ---- .df hand-outs -------------------------------------------------------------------------------------
    I.reach("alias.df_probe")
    own = data_fp(data)
    h = data.df
    try:
        h.iloc[0, h.columns.get_loc("temperature")] = -999.0
        h["__probe__"] = 2.0
        h.drop(h.index[-1:], inplace=True)
    except Exception:
        pass
    if data_fp(data) != own:
        add("df-handout-aliases-data-object:" + fam.kind, "writing into the frame handed out by .df changed the data object: %s" % I.fp_diff(own, data_fp(data)))
    if len(set(k[0] for k in order)) >= 2:
        keys.add("%s|%s" % (spec["family"], ">".join("%s%s" % (k[0], "+" if k[1] else "-") for k in order)))
    return len(order)


def run_ctor_case(spec, keys):
    """caller-owned inputs across every data-class entry point"""
    import opendsm.eemeter as em
    rng = rng_for(spec["seed"], ID, 500 + spec["n"])
    tz = spec["tz"]
    CUR["family"] = "constructors"
    n = 0
    probes = []
    d = FT.daily_baseline_df(rng, tz=tz, n=200)
    probes.append(("daily-baseline-frame", lambda x: em.DailyBaselineData(x, is_electricity_data=True), d))
    d2 = d.copy()
    d2.iloc[5, 1] = 0.0
    probes.append(("daily-baseline-frame-with-zero", lambda x: em.DailyBaselineData(x, is_electricity_data=True), d2))
    probes.append(("daily-reporting-frame-no-usage", lambda x: em.DailyReportingData(x, is_electricity_data=True), d[["temperature"]].copy()))
    probes.append(("daily-frame-datetime-column", lambda x: em.DailyBaselineData(x, is_electricity_data=True), d.reset_index().rename(columns={"index": "datetime"})))
    probes.append(("daily-from_series", lambda x: em.DailyBaselineData.from_series(x[0], x[1], is_electricity_data=True), (d["observed"].copy(), d["temperature"].copy())))
    probes.append(("daily-reporting-from_series-no-usage", lambda x: em.DailyReportingData.from_series(None, x, is_electricity_data=True), d["temperature"].copy()))
    other = "UTC" if tz != "UTC" else "America/Chicago"
    t_other = d[["temperature"]].copy()
    t_other.index = t_other.index.tz_convert(other)                  # weather frame (already named 'temperature') in another zone than the meter
    probes.append(("daily-from_series-frames-feed-in-another-zone", lambda x: em.DailyBaselineData.from_series(x[0], x[1], is_electricity_data=True), (d[["observed"]].copy(), t_other)))
    probes.append(("daily-reporting-from_series-frame-tzinfo", lambda x: em.DailyReportingData.from_series(None, x, tzinfo=d.index.tz), t_other.copy()))
    th_other = FT.synth_hourly(tz=other, start=str(d.index[0].date()), days=60, seed=rng)[["temperature"]]
    probes.append(("daily-from_series-hourly-frame-feed-in-another-zone", lambda x: em.DailyBaselineData.from_series(x[0], x[1], is_electricity_data=True), (d["observed"].iloc[:55].to_frame("observed"), th_other)))
    h = FT.synth_hourly(tz=tz, days=40, seed=rng, ghi=True)
    h.iloc[10, 1] = 0.0
    probes.append(("hourly-baseline-frame", lambda x: em.HourlyBaselineData(x, is_electricity_data=True), h))
    h_ns = h.copy()
    h_ns.index = h_ns.index.as_unit("ns")                      # an index that is in nanoseconds already (parquet, a database driver): nothing forces a new frame
    h_ns.iloc[25, 1] = 0.0
    probes.append(("hourly-baseline-frame-ns-index", lambda x: em.HourlyBaselineData(x, is_electricity_data=True), h_ns))
    probes.append(("hourly-reporting-frame-ns-index", lambda x: em.HourlyReportingData(x, is_electricity_data=True), h_ns.copy()))
    d_ns = d.copy()
    d_ns.index = d_ns.index.as_unit("ns")
    d_ns.iloc[9, 1] = 0.0
    probes.append(("daily-baseline-frame-ns-index", lambda x: em.DailyBaselineData(x, is_electricity_data=True), d_ns))
    probes.append(("hourly-reporting-frame-no-usage", lambda x: em.HourlyReportingData(x, is_electricity_data=True), h.drop(columns=["observed"])))
    probes.append(("daily-from-hourly-frame", lambda x: em.DailyBaselineData(x, is_electricity_data=True), h[["temperature", "observed"]].copy()))
    probes.append(("daily-from_series-hourly-temperature", lambda x: em.DailyBaselineData.from_series(x[0], x[1], is_electricity_data=True),
                   (d["observed"].iloc[:40].copy(), FT.synth_hourly(tz=tz, start=str(d.index[0].date()), days=40, seed=rng)["temperature"])))
    tdf, bdf, _ = FT.billing_reads(rng, tz=tz)
    b = tdf.join(bdf).iloc[:-1]
    probes.append(("billing-baseline-frame", lambda x: em.BillingBaselineData(x, is_electricity_data=True), b))
    probes.append(("billing-from_series", lambda x: em.BillingBaselineData.from_series(x[0], x[1], is_electricity_data=True), (bdf["observed"].copy(), tdf["temperature"].copy())))
    tb_other = tdf[["temperature"]].copy()
    tb_other.index = tb_other.index.tz_convert(other)
    probes.append(("billing-from_series-frames-feed-in-another-zone", lambda x: em.BillingBaselineData.from_series(x[0], x[1], is_electricity_data=True), (bdf[["observed"]].copy(), tb_other)))
    from opendsm.eemeter.models.hourly_caltrack import HourlyBaselineData as CB, HourlyReportingData as CR
    hc = FT.synth_hourly(tz=tz, days=30, seed=rng)
    hc.iloc[7, 1] = 0.0
    probes.append(("caltrack-baseline-frame", lambda x: CB(x, is_electricity_data=True), hc))
    probes.append(("caltrack-reporting-frame-no-usage", lambda x: CR(x, is_electricity_data=True), hc[["temperature"]].copy()))
    for name, fn, arg in probes:
        objs = arg if isinstance(arg, tuple) else (arg,)
        before = [I.fp(o) for o in objs]
        freq_before = [getattr(o.index, "freq", None) for o in objs]
        try:
            fn(arg)
        except Exception as e:
            add("constructor-raised:%s:%s" % (name, type(e).__name__), "%s raised %s: %s" % (name, type(e).__name__, str(e)[:160]))
            continue
        I.reach("ctor.caller_frame_fingerprint")
        n += 1
        for o, b0, f0 in zip(objs, before, freq_before):
            if I.fp(o) != b0:
                add("constructor-modified-callers-frame:" + name.split("-")[0], "%s modified the caller's %s: %s" % (name, type(o).__name__, I.fp_diff(b0, I.fp(o))), entry=name)
            if getattr(o.index, "freq", None) != f0:
                FREQ_OBS.append(name)
        keys.add("ctor|" + name + "|" + tz)
    return n


def gen_cases(tier, seed):
    q = tier == "quick"
    fams = FT.FAMILIES_QUICK if q else FT.FAMILIES_ALL + FT.FAMILIES_QUICK * 2
    zones = ["America/Chicago", "Australia/Sydney", "UTC", "Europe/London"]
    cases = [dict(kind="model", family=f, tz=zones[i % len(zones)], length=3 if q else 8, n=i, timeout=3000) for i, f in enumerate(fams)]
    poor = ["daily:current", "hourly:default"] if q else ["daily:current", "daily:legacy", "billing", "hourly:default", "hourly:default:ghi"]
    cases += [dict(kind="model", family=f, tz=zones[(i + 1) % len(zones)], length=2, poor_fit=True, n=100 + i, timeout=3000) for i, f in enumerate(poor)]
    # ... and the same on a baseline that is disqualified already (too short, fitted with the override): the data object's lists are not empty
    # when the model adds its own notice
    cases += [dict(kind="model", family=f, tz=zones[(i + 2) % len(zones)], length=2, poor_fit=True, baseline_days=[250, 200, 270][i % 3], n=150 + i, timeout=3000)
              for i, f in enumerate(["daily:current", "billing", "hourly:default"] if q else poor + ["hourly:robust", "daily:custom-maps"])]
    # partial-year hourly baselines: the reporting year contains (month, weekday) cells the model never saw, whose treatment
    # depends on the reporting set - the place where state can leak between predicts
    part = ["hourly:default"] if q else ["hourly:default", "hourly:default:ghi", "hourly:robust", "hourly:clusters6"]
    cases += [dict(kind="model", family=f, tz=zones[(i + 2) % len(zones)], length=3 if q else 8, baseline_days=[170, 120, 200, 90][i % 4], n=200 + i, timeout=3000)
              for i, f in enumerate(part)]
    cases += [dict(kind="ctor", tz=zones[i % len(zones)], n=i) for i in range(2 if q else 8)]
    return cases


def run_case(spec):
    del VIOL[:]
    del FREQ_OBS[:]
    CUR.clear()
    keys = set()
    n = run_model_case(spec, keys) if spec["kind"] == "model" else run_ctor_case(spec, keys)
    return dict(viol=[dict(v) for v in VIOL], reach=I.take_reach(), keys=sorted(keys),
                hist={"family": spec.get("family", "constructors"), "index_freq_set_on_callers_object(observed, not judged)": sorted(set(FREQ_OBS))}, events=n)
