"""C09 — daily temperature is the local-day mean of the hourly temperatures.

Boundary observation of data.df['temperature'] of the real daily/billing data classes fed with
sub-daily temperature; a wrapper on the real _check_data_sufficiency captures the sufficiency frame
(per-day counts of present/absent readings that are otherwise invisible).  Reference: each reading is
assigned to the meter day [d_i, d_{i+1}) it falls in; mean of the non-missing readings; missing when
half or fewer of the day's readings are present."""
import numpy as np
import pandas as pd

from vf import instrument as I
from vf.gen import rng_for, daily_index

ID = "C09"
TECHNIQUE = "runtime monitoring: reference-model monitor (independent local-day mean and reading counts) compared with the real data classes' temperature and sufficiency columns per local day, DST days and coverage thresholds included"
LEVEL = "exploration"
NEEDS_NUMBA = False
CASE_TIMEOUT = 1800
RULE = ("generated datasets: daily meter (local midnight, or another fixed hour) + hourly or half-hourly temperature feed given in the meter's zone, in "
        "UTC or in another zone (whole multiples of the sampling interval), spans containing DST days, NaN patterns {none, isolated, runs, whole "
        "days, exactly half of a day, just over / under half}; daily and billing classes; frame and from_series entry points; temperature-only reporting data (from_series without a meter, the "
        "site's zone requested with tzinfo, the feed delivered in UTC under each of its names / local standard time / a neighbouring zone).  "
        "distinct_nontrivial = distinct (class, entry, meter zone, feed zone, interval, meter hour, NaN pattern) datasets with at least one incomplete day.")
ASSUMPTIONS = ["the final meter day (open-ended last interval) is excluded", "means are compared with 1e-9 relative tolerance (sum re-association)",
               "'readings of a day' are the feed timestamps inside the meter day; a DST day has 23 or 25 hourly readings"]
REQUIRED_REACH = {"dataset.judged": 40, "day.mean_compared": 4000, "day.expected_missing": 100, "day.exactly_half": 20, "counts.days_compared": 1500,
                  "feed.half_hourly": 8, "day.dst": 8, "day.dst_around_half": 4, "hook.check_data_sufficiency": 40, "meter.zero_reads": 10, "meter.days_without_usage": 20, "feed.starts_at_another_hour_than_the_meter_reads": 8,
                  "entry.temperature_only_from_series": 16, "entry.frame_with_datetime_column": 6, "entry.temperature_only_feed_in_another_zone_than_requested": 10}

VIOL = []
SUFF = []


def add(mech, what, **kw):
    if sum(1 for v in VIOL if v["mech"] == mech) < 3:
        VIOL.append(dict(mech=mech, what=what, **kw))


def suff_pre(a, k):
    I.reach("hook.check_data_sufficiency")
    SUFF.append(a[1].copy() if len(a) > 1 else k["sufficiency_df"].copy())


_done = False


def setup_worker():
    global _done
    if _done:
        return
    import opendsm.eemeter as em
    for cls in (em.DailyBaselineData, em.DailyReportingData, em.BillingBaselineData, em.BillingReportingData):
        I.wrap(cls, "_check_data_sufficiency", pre=suff_pre)
    _done = True


def reference(meter_idx, tidx, tvals):
    """per meter day: (mean or nan, n_present, n_total)"""
    t = tidx.asi8 if tidx.unit == "ns" else tidx.as_unit("ns").asi8
    m = meter_idx.asi8 if meter_idx.unit == "ns" else meter_idx.as_unit("ns").asi8
    out = []
    for i in range(len(m) - 1):
        sel = (t >= m[i]) & (t < m[i + 1])
        v = tvals[sel]
        n_tot = int(sel.sum())
        ok = np.isfinite(v)
        n_ok = int(ok.sum())
        if n_tot == 0 or n_ok * 2 <= n_tot:
            out.append((np.nan, n_ok, n_tot))
        else:
            out.append((float(np.sum(v[ok])) / n_ok, n_ok, n_tot))
    return out


def nan_pattern(rng, tvals, day_of, pattern, per_day):
    v = tvals.copy()
    days = np.unique(day_of)
    days = days[1:-1] if len(days) > 4 else days
    def pick(k):
        return rng.choice(days, size=min(k, len(days)), replace=False)
    if pattern == "isolated":
        v[rng.random(len(v)) < 0.05] = np.nan
    elif pattern == "runs":
        for _ in range(4):
            a = int(rng.integers(0, len(v) - 40))
            v[a:a + int(rng.integers(3, 40))] = np.nan
    elif pattern == "whole_days":
        for d in pick(5):
            v[day_of == d] = np.nan
    elif pattern == "exactly_half":
        for d in pick(8):
            idx = np.flatnonzero(day_of == d)
            v[rng.choice(idx, size=len(idx) // 2, replace=False)] = np.nan          # half absent (even count -> exactly half present)
    elif pattern == "around_half":
        for d in pick(10):
            idx = np.flatnonzero(day_of == d)
            k = len(idx) // 2 + int(rng.choice([-2, -1, 1, 2]))
            v[rng.choice(idx, size=max(0, k), replace=False)] = np.nan
    elif pattern == "dst_half":
        # the 23/25-reading days of a DST change, with just over / just under half of their readings present
        counts = {d: int((day_of == d).sum()) for d in np.unique(day_of)}
        usual = max(set(counts.values()), key=list(counts.values()).count)
        odd = [d for d in days if counts[d] != usual]
        for d in odd + list(pick(3)):
            idx = np.flatnonzero(day_of == d)
            keep = len(idx) // 2 + int(rng.choice([0, 1]))                 # 11|12 of 23, 12|13 of 25, 12|13 of 24
            v[rng.choice(idx, size=len(idx) - keep, replace=False)] = np.nan
    elif pattern == "feed_begins_missing":
        # a weather feed whose first readings are missing (the station came on line a few hours into the first day), plus a few isolated gaps
        v[: int(rng.integers(2, 6))] = np.nan
        v[rng.random(len(v)) < 0.01] = np.nan
    elif pattern == "quarter":
        for d in pick(10):
            idx = np.flatnonzero(day_of == d)
            v[rng.choice(idx, size=len(idx) // 4, replace=False)] = np.nan
    return v


def run_case(spec):
    import opendsm.eemeter as em
    if spec.get("entry") == "series-no-meter":
        return run_nometer_case(spec)
    rng = rng_for(spec["seed"], ID, spec["n"])
    del VIOL[:]
    del SUFF[:]
    keys = set()
    tz, ftz, minutes, mh = spec["tz"], spec["feed_tz"], spec["minutes"], spec["meter_hour"]
    ndays = spec["days"]
    start = spec["start"]
    midx = daily_index(tz, start, ndays)
    if mh:
        # a meter that reads at <mh> o'clock WALL-CLOCK time every day (mh is after every transition hour of the listed zones, so the time
        # exists and is unambiguous); adding 'mh hours' to local midnight would read an hour off on the days of a DST change
        midx = (midx.tz_localize(None).normalize() + pd.Timedelta(hours=mh)).tz_localize(tz)
    y = np.round(20 + rng.normal(0, 2, ndays), 3)
    if spec.get("usage_nan_run"):
        # days without a usage reading (a run and a few isolated ones) in the interior: their temperature, and their neighbours', is untouched
        ur = np.random.default_rng([spec["seed"], 910, spec["n"]])
        a = int(ur.integers(5, ndays - 5 - int(spec["usage_nan_run"])))
        y[a:a + int(spec["usage_nan_run"])] = np.nan
        y[ur.choice(np.arange(3, ndays - 3), size=3, replace=False)] = np.nan
        I.reach("meter.days_without_usage", int(np.isnan(y).sum()))
    if spec.get("zero_reads"):
        # electricity: a zero read is a missing READ; the temperature of that day is untouched
        zr = np.random.default_rng([spec["seed"], 909, spec["n"]])
        y[zr.choice(np.arange(3, ndays - 3), size=int(spec["zero_reads"]), replace=False)] = 0.0
        I.reach("meter.zero_reads", int(spec["zero_reads"]))
    t0, t1 = midx[0], midx[-1] + pd.Timedelta(days=1)
    lead = int(spec.get("feed_lead_h", 0))          # the weather feed starts some hours before the first meter read (another wall-clock hour than the reads)
    if lead:
        I.reach("feed.starts_at_another_hour_than_the_meter_reads")
    fidx = pd.date_range((t0 - pd.Timedelta(hours=lead)).tz_convert("UTC"), t1.tz_convert("UTC"), freq="%dmin" % minutes, inclusive="left").tz_convert(ftz)
    hod = fidx.tz_convert(tz).hour.values + fidx.tz_convert(tz).minute.values / 60
    tv = np.round(55 + 10 * np.sin(2 * np.pi * (hod - 15) / 24) + rng.normal(0, 3, len(fidx)) + np.linspace(-15, 15, len(fidx)), 2)
    # meter-day id of each feed reading
    mm = midx.asi8 if midx.unit == "ns" else midx.as_unit("ns").asi8
    ff = fidx.asi8 if fidx.unit == "ns" else fidx.as_unit("ns").asi8
    day_of = np.searchsorted(mm, ff, side="right") - 1
    tv = nan_pattern(rng, tv, day_of, spec["pattern"], 24 * 60 // minutes)
    lead_nan = int(np.argmax(np.isfinite(tv))) if np.isfinite(tv).any() else len(tv)        # number of missing readings at the start of the feed
    if lead_nan >= 2:
        I.reach("feed.begins_with_missing_readings")
    if minutes == 30:
        I.reach("feed.half_hourly")
    meter = pd.Series(y, index=midx, name="value")
    temp = pd.Series(tv, index=fidx, name="temp")
    cls = {"daily-baseline": em.DailyBaselineData, "daily-reporting": em.DailyReportingData, "billing-baseline": em.BillingBaselineData}[spec["cls"]]
    tag = {k: spec[k] for k in ("cls", "entry", "tz", "feed_tz", "minutes", "meter_hour", "pattern", "start", "days")}
    try:
        if spec["entry"] == "series":
            if spec["cls"].startswith("billing"):
                reads = meter.iloc[::30].copy()
                reads[:] = 600.0
                data = cls.from_series(reads, temp, is_electricity_data=True)
            else:
                data = cls.from_series(meter, temp, is_electricity_data=True)
        else:
            df = pd.DataFrame({"temperature": temp.tz_convert(tz)})
            df["observed"] = np.nan
            obs = meter if not spec["cls"].startswith("billing") else meter.iloc[::30] * 30
            df.loc[df.index.isin(obs.index), "observed"] = obs.reindex(df.index[df.index.isin(obs.index)]).values
            if spec["entry"] == "frame-datetime-column":
                # the documented alternative to a DatetimeIndex: a tz-aware 'datetime' column (local zone)
                df = df.rename_axis("datetime").reset_index()
                I.reach("entry.frame_with_datetime_column")
            data = cls(df, is_electricity_data=True)
            if str(data.df.index.tz) != str(tz):
                add("data-object-not-in-the-frames-zone:%s" % spec["cls"].split("-")[0], "frame zone %s, data object zone %s (%s entry)" % (tz, data.df.index.tz, spec["entry"]), **tag)
    except Exception as e:
        import traceback
        tb = traceback.extract_tb(e.__traceback__)
        add("constructor-raised:%s:%s:%s" % (spec["cls"], type(e).__name__, tb[-1].name), "%s (%s entry) raised %s: %s" % (spec["cls"], spec["entry"], type(e).__name__, str(e)[:160]), **tag)
        return dict(viol=[dict(v) for v in VIOL], reach=I.take_reach(), keys=[], hist={"cls": spec["cls"]}, events=1)
    I.reach("dataset.judged")
    out = data.df
    ref = reference(midx.append(pd.DatetimeIndex([t1])), fidx, tv)
    got_idx = out.index
    pos = got_idx.get_indexer(midx)
    incomplete = False
    bad_mean, bad_missing = [], []
    for i, (mean, n_ok, n_tot) in enumerate(ref[:-1]):              # the final (open-ended) day is excluded
        if pos[i] < 0 or pos[i] >= len(out) - 1:                   # ... and so is the last day of the data object
            continue
        g = float(out["temperature"].iloc[pos[i]])
        I.reach("day.mean_compared")
        if n_tot not in (24 * 60 // minutes,):
            I.reach("day.dst")
        if n_ok < n_tot:
            incomplete = True
        if n_ok * 2 == n_tot:
            I.reach("day.exactly_half")
        if n_tot != 24 * 60 // minutes and abs(n_ok * 2 - n_tot) <= 2 and n_ok < n_tot:
            I.reach("day.dst_around_half")
        if np.isnan(mean):
            I.reach("day.expected_missing")
            if not np.isnan(g):
                bad_missing.append((i, g, n_ok, n_tot))
        else:
            if np.isnan(g) or abs(g - mean) > 1e-9 * max(1.0, abs(mean)):
                bad_mean.append((i, g, mean, n_ok, n_tot))
    if bad_mean:
        i, g, mean, n_ok, n_tot = bad_mean[0]
        complete = "complete-day" if n_ok == n_tot else "incomplete-day"
        ratio = ""
        if n_ok < n_tot and not np.isnan(g) and abs(g - mean * n_tot / n_ok) <= 1e-6 * abs(g):
            ratio = ":mean-divided-by-coverage"
        elif spec["cls"].startswith("billing") and minutes == 60 and all(b[4] != 24 and b[3] * 2 > b[4] and b[3] <= 12 and np.isnan(b[1]) for b in bad_mean):
            ratio = ":short-dst-day-judged-against-half-of-24-readings"
        elif minutes != 60 and mh:
            ratio = ":meter-reads-at-another-hour"
            complete = "any-day"
        elif minutes == 60 and spec["entry"] == "series" and lead_nan >= 2 and mh and all(np.isnan(b[1]) for b in bad_mean):
            # the hole left by the trimmed leading readings (see the counts classifier below) sends the hourly feed down the coarse-feed path,
            # whose calendar-day bins do not line up with a meter that reads at another hour: every day's temperature is missing
            ratio = ":feed-begins-with-two-or-more-missing-readings:meter-reads-at-another-hour"
            complete = "any-day"
        elif minutes != 60 and all(pos[b[0]] >= len(out) - 2 for b in bad_mean):
            ratio = ":last-day-of-the-data"
            complete = "any-day"
        add("daily-temperature-is-not-the-mean-of-the-days-readings:%s:%dmin:%s%s" % (spec["cls"].split("-")[0], minutes, complete, ratio),
            "%d days differ; e.g. meter day %s: data.df temperature %r, mean of its %d/%d present readings %r" % (len(bad_mean), midx[i], g, n_ok, n_tot, mean),
            n_days=len(bad_mean), **tag)
    if bad_missing:
        i, g, n_ok, n_tot = bad_missing[0]
        last = ":last-day-of-the-data" if minutes != 60 and all(pos[b[0]] >= len(out) - 2 for b in bad_missing) else ""
        add("day-with-half-or-fewer-readings-not-missing:%s:%dmin:%s%s" % (spec["cls"].split("-")[0], minutes, "exactly-half" if n_ok * 2 == n_tot else "under-half", last),
            "%d days; e.g. meter day %s has %d of %d readings but temperature %r" % (len(bad_missing), midx[i], n_ok, n_tot, g), n_days=len(bad_missing), **tag)
    # the counts handed to the sufficiency test
    if SUFF:
        s = SUFF[-1]
        if {"temperature_null", "temperature_not_null"} <= set(s.columns):
            sp = s.index.get_indexer(midx)
            badc = []
            for i, (mean, n_ok, n_tot) in enumerate(ref[:-1]):
                if sp[i] < 0:
                    continue
                I.reach("counts.days_compared")
                a, b = s["temperature_not_null"].iloc[sp[i]], s["temperature_null"].iloc[sp[i]]
                if not (a == n_ok and b == n_tot - n_ok):
                    badc.append((i, a, b, n_ok, n_tot - n_ok))
            if badc:
                i, a, b, e1, e2 = badc[0]
                if all(np.isnan(x[1]) and np.isnan(x[2]) and x[3] == 0 for x in badc):
                    why = ":fully-missing-day-has-nan-counts"
                elif minutes != 60 and mh:
                    why = ":meter-reads-at-another-hour"
                elif minutes != 60 and all((x[1], x[2]) in ((1, 0), (0, 1)) for x in badc):
                    why = ":one-flag-per-day-instead-of-reading-counts"
                elif minutes == 60 and spec["entry"] == "series" and lead_nan >= 2 and (all((x[1], x[2]) in ((1, 0), (0, 1)) for x in badc) or
                                                                                       (mh and all(np.isnan(x[1]) and np.isnan(x[2]) for x in badc))):
                    # from_series trims the feed's leading missing readings; the meter's first timestamp comes back through the join, the second
                    # reading does not: the hourly index has a hole, is no longer recognised as hourly and is handled like a coarse feed
                    why = ":feed-begins-with-two-or-more-missing-readings"
                else:
                    why = ""
                add("sufficiency-counts-not-exact:%s:%dmin%s" % (spec["cls"].split("-")[0], minutes, why),
                    "%d days; e.g. meter day %s: handed (present %r, absent %r), true (%d, %d)" % (len(badc), midx[i], a, b, e1, e2), n_days=len(badc), **tag)
    if incomplete:
        keys.add("|".join(str(spec[k]) for k in ("cls", "entry", "tz", "feed_tz", "minutes", "meter_hour", "pattern")))
    return dict(viol=[dict(v) for v in VIOL], reach=I.take_reach(), keys=sorted(keys), hist={"cls": spec["cls"] + "/" + spec["entry"], "pattern": spec["pattern"],
                "interval": "%dmin" % minutes}, events=1)


STD_OFFSET_ZONE = {"America/Chicago": "Etc/GMT+6", "America/New_York": "Etc/GMT+5", "America/Los_Angeles": "Etc/GMT+8", "Europe/London": "Etc/GMT",
                   "Europe/Berlin": "Etc/GMT-1", "Australia/Sydney": "Etc/GMT-10", "Pacific/Auckland": "Etc/GMT-12", "Asia/Tokyo": "Etc/GMT-9", "UTC": "Etc/UTC"}


def run_nometer_case(spec):
    """Temperature-only reporting data: from_series(None, feed, tzinfo=<the site's zone>).  The meter days are the local calendar days of the
    requested zone (of the feed's own zone when none is requested), whatever zone the feed is delivered in (UTC under any of its names, local
    standard time all year, a neighbouring zone)."""
    import zoneinfo
    import opendsm.eemeter as em
    rng = rng_for(spec["seed"], ID, 5000 + spec["n"])
    del VIOL[:]
    del SUFF[:]
    keys = set()
    tz, ftz, minutes = spec["tz"], spec["feed_tz"], spec["minutes"]
    site = tz or ftz
    t0 = pd.Timestamp(spec["start"], tz="UTC") + pd.Timedelta(hours=int(spec.get("start_hour_utc", 0)))
    fidx = pd.date_range(t0, t0 + pd.Timedelta(days=spec["days"]), freq="%dmin" % minutes, inclusive="left").tz_convert(ftz)
    loc = fidx.tz_convert(site)
    hod = loc.hour.values + loc.minute.values / 60
    tv = np.round(55 + 10 * np.sin(2 * np.pi * (hod - 15) / 24) + rng.normal(0, 3, len(fidx)) + np.linspace(-15, 15, len(fidx)), 2)
    # local calendar days of the site (independent of pandas' normalize: zoneinfo wall-clock dates)
    dates = np.array([d.toordinal() for d in loc.date])
    tv = nan_pattern(rng, tv, dates, spec["pattern"], 24 * 60 // minutes)
    temp = pd.Series(tv, index=fidx, name="temp")
    cls = {"daily-reporting": em.DailyReportingData, "billing-reporting": em.BillingReportingData}[spec["cls"]]
    tag = {k: spec[k] for k in ("cls", "entry", "tz", "feed_tz", "minutes", "pattern", "start", "days")}
    kw = {"tzinfo": zoneinfo.ZoneInfo(tz)} if tz else {}
    try:
        if spec.get("via", "from_series") == "from_series":
            data = cls.from_series(None, temp if spec["n"] % 2 else temp.to_frame("temperature"), is_electricity_data=True, **kw)
        else:
            # temperature-only frame in the site's zone (index, or the documented tz-aware 'datetime' column)
            fdf = temp.tz_convert(site).to_frame("temperature")
            if spec["via"] == "frame-datetime-column":
                fdf = fdf.rename_axis("datetime").reset_index()
                I.reach("entry.frame_with_datetime_column")
            data = cls(fdf, is_electricity_data=True)
    except Exception as e:
        import traceback
        tb = traceback.extract_tb(e.__traceback__)
        add("constructor-raised:%s:%s:%s" % (spec["cls"], type(e).__name__, tb[-1].name), "%s (temperature-only from_series) raised %s: %s" % (spec["cls"], type(e).__name__, str(e)[:160]), **tag)
        return dict(viol=[dict(v) for v in VIOL], reach=I.take_reach(), keys=[], hist={"cls": spec["cls"]}, events=1)
    I.reach("dataset.judged")
    I.reach("entry.temperature_only_from_series")
    if ftz != site:
        I.reach("entry.temperature_only_feed_in_another_zone_than_requested")
    out = data.df
    if str(out.index.tz) != site:
        add("temperature-only-data-not-in-the-requested-zone:%s" % spec["cls"].split("-")[0],
            "requested zone %s, feed zone %s, data object zone %s" % (site, ftz, out.index.tz), **tag)
    per_day = 24 * 60 // minutes
    got = {}
    for ts, v in zip(out.index, out["temperature"].values):
        got[ts.tz_convert(site).date().toordinal()] = (ts, float(v))
    suff = SUFF[-1] if SUFF and {"temperature_null", "temperature_not_null"} <= set(SUFF[-1].columns) else None
    sgot = {}
    if suff is not None:
        for ts, a, b in zip(suff.index, suff["temperature_not_null"].values, suff["temperature_null"].values):
            sgot[ts.tz_convert(site).date().toordinal()] = (a, b)
    udays = np.unique(dates)
    incomplete = False
    bad_mean, bad_missing, bad_counts, not_midnight = [], [], [], []
    fin = np.flatnonzero(np.isfinite(tv))
    d_first, d_last = (dates[fin[0]], dates[fin[-1]]) if len(fin) else (udays[-1], udays[0])
    for d in udays[1:-1]:                               # whole local days only: the first and the last local day of the feed may be partial
        if d <= d_first or d >= d_last:                 # ... and the feed begins / ends with its first / last actual reading (leading and trailing
            continue                                    # missing readings are trimmed by from_series): that day is a partial day too
        sel = dates == d
        v = tv[sel]
        n_tot, n_ok = int(sel.sum()), int(np.isfinite(v).sum())
        if d not in got:
            bad_mean.append((d, None, None, n_ok, n_tot))
            continue
        ts, g = got[d]
        if (ts.tz_convert(site).hour, ts.tz_convert(site).minute) != (0, 0):
            not_midnight.append(ts)
        I.reach("day.mean_compared")
        if n_tot != per_day:
            I.reach("day.dst")
        if n_ok < n_tot:
            incomplete = True
        if n_ok * 2 == n_tot:
            I.reach("day.exactly_half")
        if n_ok * 2 <= n_tot:
            I.reach("day.expected_missing")
            if not np.isnan(g):
                bad_missing.append((d, g, n_ok, n_tot))
        else:
            mean = float(np.sum(v[np.isfinite(v)])) / n_ok
            if np.isnan(g) or abs(g - mean) > 1e-9 * max(1.0, abs(mean)):
                bad_mean.append((d, g, mean, n_ok, n_tot))
        if d in sgot:
            I.reach("counts.days_compared")
            a, b = sgot[d]
            if not (a == n_ok and b == n_tot - n_ok):
                bad_counts.append((d, a, b, n_ok, n_tot - n_ok))
    import datetime as _dt
    fmt = lambda d: _dt.date.fromordinal(int(d)).isoformat()
    cname = spec["cls"].split("-")[0]
    if not_midnight:
        add("temperature-only-days-do-not-start-at-local-midnight:%s" % cname, "%d rows; e.g. %s (requested zone %s, feed zone %s)" % (len(not_midnight), not_midnight[0], site, ftz), **tag)
    if bad_mean:
        d, g, mean, n_ok, n_tot = bad_mean[0]
        why = ""
        if minutes != 60 and all(np.isnan(b[1]) if b[1] is not None else False for b in bad_mean) is False and all(b[0] >= udays[-3] for b in bad_mean):
            why = ":last-day-of-the-data"
        mech = "daily-temperature-is-not-the-mean-of-the-days-readings:%s:%dmin:temperature-only%s" % (cname, minutes, why)
        if cname == "billing" and minutes == 60 and all(b[1] is not None and b[4] != 24 and b[3] * 2 > b[4] and b[3] <= 12 and np.isnan(b[1]) for b in bad_mean):
            # the recorded billing-class defect (same code path, same mechanism): a 23-hour day judged against half of 24 readings
            mech = "daily-temperature-is-not-the-mean-of-the-days-readings:billing:60min:incomplete-day:short-dst-day-judged-against-half-of-24-readings"
        add(mech,
            "%d local days differ; e.g. %s: data.df temperature %r, mean of its %d/%d present readings %r (requested zone %s, feed zone %s)" % (len(bad_mean), fmt(d), g, n_ok, n_tot, mean, site, ftz),
            n_days=len(bad_mean), **tag)
    if bad_missing:
        d, g, n_ok, n_tot = bad_missing[0]
        add("day-with-half-or-fewer-readings-not-missing:%s:%dmin:temperature-only" % (cname, minutes),
            "%d days; e.g. local day %s has %d of %d readings but temperature %r" % (len(bad_missing), fmt(d), n_ok, n_tot, g), n_days=len(bad_missing), **tag)
    if bad_counts:
        d, a, b, e1, e2 = bad_counts[0]
        if all(np.isnan(x[1]) and np.isnan(x[2]) and x[3] == 0 for x in bad_counts):
            why = ":fully-missing-day-has-nan-counts"
        elif minutes != 60 and all((x[1], x[2]) in ((1, 0), (0, 1)) for x in bad_counts):
            why = ":one-flag-per-day-instead-of-reading-counts"
        else:
            why = ""
        add("sufficiency-counts-not-exact:%s:%dmin%s" % (cname, minutes, why),
            "%d days; e.g. local day %s: handed (present %r, absent %r), true (%d, %d)" % (len(bad_counts), fmt(d), a, b, e1, e2), n_days=len(bad_counts), **tag)
    if incomplete:
        keys.add("|".join(str(spec[k]) for k in ("cls", "entry", "tz", "feed_tz", "minutes", "pattern")))
    return dict(viol=[dict(v) for v in VIOL], reach=I.take_reach(), keys=sorted(keys), hist={"cls": spec["cls"] + "/temperature-only", "pattern": spec["pattern"],
                "interval": "%dmin" % minutes}, events=1)


def gen_cases(tier, seed):
    rng = np.random.default_rng([seed, 9])
    q = tier == "quick"
    n = 64 if q else 900
    zones = ["America/Chicago", "UTC", "Europe/London", "Australia/Sydney", "Asia/Kolkata", "America/Los_Angeles", "Europe/Berlin", "Pacific/Auckland", "Asia/Tokyo", "America/New_York"]
    pats = ["none", "isolated", "runs", "whole_days", "exactly_half", "around_half", "quarter", "dst_half", "dst_half", "feed_begins_missing"]
    cases = []
    for i in range(n):
        tz = zones[i % (6 if q else len(zones))]
        minutes = 60 if rng.random() < 0.6 else 30
        r = rng.random()
        ftz = tz if r < 0.4 else ("UTC" if r < 0.7 else zones[int(rng.integers(0, len(zones)))])
        if minutes == 60 and (("Kolkata" in tz) != ("Kolkata" in ftz)) and ftz != "UTC":
            ftz = tz          # offsets must be whole multiples of the sampling interval
        cls = str(rng.choice(["daily-baseline", "daily-reporting", "billing-baseline"], p=[0.6, 0.2, 0.2]))
        start = str((pd.Timestamp("2019-01-01") + pd.Timedelta(days=int(rng.integers(0, 700)))).date()) if rng.random() < 0.6 else str(rng.choice(["2019-03-01", "2019-10-20", "2020-03-20", "2019-09-25"]))
        if pats[i % len(pats)] == "dst_half":
            start = str(rng.choice(["2019-03-01", "2019-10-15", "2020-03-01", "2019-09-20", "2020-10-20"]))
        cases.append(dict(kind="dataset", cls=cls, entry=str(rng.choice(["series", "frame", "frame-datetime-column"], p=[0.6, 0.2, 0.2])), tz=tz, feed_tz=ftz, minutes=minutes,
                          meter_hour=0 if rng.random() < 0.8 or cls.startswith("billing") else int(rng.choice([6, 7, 12])), pattern=pats[i % len(pats)],
                          start=start, days=int(rng.choice([40, 70, 100])) if not cls.startswith("billing") else 120, n=i))
        if i % 3 == 2 and not cls.startswith("billing"):
            cases[-1]["feed_lead_h"] = [5, 6, 19, 1][(i // 3) % 4]
        if i % 4 == 1 and not cls.startswith("billing"):
            cases[-1]["zero_reads"] = 1 + i % 5
        if i % 4 == 3 and not cls.startswith("billing"):
            cases[-1]["usage_nan_run"] = 2 + i % 6
    # temperature-only reporting data: the site's zone is requested with tzinfo, the feed arrives in any zone (UTC under each of its names,
    # local standard time all year, a neighbouring zone, the site's own zone; or no zone requested at all)
    sites = ["America/Chicago", "Europe/Berlin", "Australia/Sydney", "America/New_York", "Europe/London", "America/Los_Angeles"]
    m = 24 if q else 240
    for j in range(m):
        site = sites[j % len(sites)]
        feeds = ["UTC", "Etc/UTC", STD_OFFSET_ZONE[site], "GMT", sites[(j + 1 + j // len(sites)) % len(sites)], site, "Zulu"]
        ftz = feeds[(j + j // 7) % len(feeds)]
        cases.append(dict(kind="dataset", cls="daily-reporting" if j % 4 else "billing-reporting", entry="series-no-meter", tz=site if j % 9 != 8 else None, feed_tz=ftz,
                          minutes=60 if j % 3 else 30, meter_hour=0, pattern=pats[(j + j // len(pats)) % len(pats)],
                          start=["2019-03-01", "2019-06-10", "2019-10-15", "2020-03-20", "2020-07-01", "2019-09-25"][(j + j // 6) % 6], start_hour_utc=[0, 5, 13, 22][j % 4],
                          days=int(rng.choice([40, 60, 75])), n=1000 + j))
        if j % 3 == 2 and cases[-1]["cls"] == "daily-reporting" and cases[-1]["tz"]:
            cases[-1]["via"] = ["frame-datetime-column", "frame"][(j // 3) % 2]
    return cases
