"""C06 — predictions come back one row per input timestamp, on the real clock.

(step, exhaustive) for every zone of the tz database and every UTC-offset transition 2000-2037 the real
_get_dst_indices, the real correct_dst (inside _get_feature_matrices, driven directly with a feature
whose value is the instant's sequence number) and the real _transform_dst are run on the contiguous
hourly local-day window the data class would build; the 24-slot day matrix and the mapping back to the
real instants are judged.  (end to end) boundary wrapper on predict of all families: index equality
with the data object's frame, order, uniqueness, finiteness pattern."""
import copy
import datetime as dt

import numpy as np
import pandas as pd
import pytz

from vf import instrument as I
from vf import fits as FT
from vf.gen import rng_for

ID = "C06"
TECHNIQUE = 'runtime monitoring: exhaustive driving of the real clock-normalisation step over every tz-database transition 2000-2037 with a reference slot model, plus index/finiteness post-conditions on end-to-end predict() across transitions and zone pairs'
LEVEL = "exploration"
CASE_TIMEOUT = 3000
RULE = ("step: every UTC-offset transition 2000-01-01..2037-12-31 of every zone in pytz.all_timezones (aliases included), window = 2 local days before .. "
        "2 after, judged per transition and tagged by class (+-1h away from midnight / skipping or repeating local midnight / sub-hour / multi-hour / "
        "date-line day skip); end to end: hourly models fitted per zone and predicted on spans that start/end on, before and after transition days, "
        "with gaps and without usage; daily/billing/CalTRACK models on reporting sets with NaN/inf temperatures and missing usage.  "
        "distinct_nontrivial = distinct (zone, transition instant) steps + distinct (family, zone, span) end-to-end predictions containing a transition or a gap.")
ASSUMPTIONS = ["the hourly data class builds whole local days of on-the-hour instants; windows are built the same way (pandas date_range over local wall-clock days)",
               "the second occurrence of a repeated hour may carry any value between its neighbours' slots (it is synthesised)"]
REQUIRED_REACH = {"step.transitions": 15000, "step.ok": 14000, "e2e.predict_judged": 40, "e2e.rows": 50000, "e2e.span_with_transition": 10,
                  "e2e.finiteness_rows": 2000, "e2e.zone_pairs_in_one_process": 2, "e2e.frame_without_a_modelable_row": 6, "e2e.frame_with_exactly_one_unmodelable_row": 30, "e2e.daily_rows_at_fixed_instants_24h_apart": 8, "e2e.imported_2_0_model_judged": 20, "e2e.irradiance_gaps": 6}
LO, HI = dt.datetime(2000, 1, 1), dt.datetime(2038, 1, 1)

VIOL = []


def add(mech, what, **kw):
    if sum(1 for v in VIOL if v["mech"] == mech) < 2:
        VIOL.append(dict(mech=mech, what=what, **kw))


def all_transitions():
    out = []
    for name in sorted(pytz.all_timezones):
        z = pytz.timezone(name)
        tt = getattr(z, "_utc_transition_times", None)
        if not tt:
            continue
        infos = z._transition_info
        for i, (t, info) in enumerate(zip(tt, infos)):
            if i == 0 or not (LO <= t < HI):
                continue
            d = (info[0] - infos[i - 1][0]).total_seconds()
            if d == 0:
                continue
            out.append((name, t.isoformat(), d))
    return out


def classify(name, t_iso, d):
    """deterministic class of a transition from the tz database alone"""
    tu = pd.Timestamp(t_iso, tz="UTC")
    after = tu.tz_convert(name)
    before = (tu - pd.Timedelta(seconds=1)).tz_convert(name)
    if abs(d) >= 20 * 3600:
        return "date-line-day-skip"
    if abs(d) > 3600:
        return "multi-hour-shift"
    if abs(d) < 3600:
        return "sub-hour-shift"
    # +-1h: does it skip or repeat local midnight?
    if d > 0:     # clocks forward: local times [before_wall+1s, after_wall) do not exist
        start_missing = (before + pd.Timedelta(seconds=1)).tz_localize(None)
        wall = (before.tz_localize(None) + pd.Timedelta(seconds=1))
        if wall.hour == 0 and wall.minute == 0:
            return "pm1h-skips-local-midnight"
        if wall.hour == 23 and wall.minute == 0:
            return "pm1h-skips-the-hour-before-midnight"
        return "pm1h-away-from-midnight"
    else:         # clocks back: the hour before `after` wall time is repeated
        wall_after = after.tz_localize(None)
        if wall_after.hour == 23 or wall_after.hour == 0 and False:
            return "pm1h-repeats-the-hour-before-midnight"
        if wall_after.hour == 0 and wall_after.minute == 0:
            return "pm1h-repeats-local-midnight"
        return "pm1h-away-from-midnight"


_model = None


def step_model():
    global _model
    if _model is None:
        import opendsm.eemeter as em
        m = em.HourlyModel(settings=dict(seed=1))
        m.is_fitted = True
        m._ts_feature_norm = ["k"]
        m._categorical_features = []
        _model = m
    return _model


def judge_step(name, t_iso, d):
    from opendsm.eemeter.models.hourly.model import _get_dst_indices, _transform_dst
    cls = classify(name, t_iso, d)
    tu = pd.Timestamp(t_iso, tz="UTC")
    loc = tu.tz_convert(name)
    try:
        start = (loc - pd.Timedelta(days=2)).replace(hour=0, minute=0, second=0, microsecond=0)
        end = (loc + pd.Timedelta(days=2)).replace(hour=23, minute=0, second=0, microsecond=0)
        idx = pd.date_range(start=start, end=end, freq="h")
    except Exception as e:
        return cls, "window-cannot-be-built:" + type(e).__name__
    n = len(idx)
    k = np.arange(n, dtype=float)
    df = pd.DataFrame({"observed": 1.0, "k": k}, index=idx)
    dates = idx.date
    df["date"] = dates
    uniq = sorted(set(dates))
    ndays = len(uniq)
    try:
        dst = _get_dst_indices(df[["observed"]])
    except Exception as e:
        return cls, "get_dst_indices-raised:" + type(e).__name__
    try:
        X, _ = step_model()._get_feature_matrices(df[["k", "date"]].copy(), dst)
    except Exception as e:
        return cls, "day-matrix-cannot-be-built:" + type(e).__name__
    X = np.asarray(X, dtype=float)
    if X.shape != (ndays, 24):
        return cls, "day-matrix-shape:%s" % (X.shape,)
    # every real instant appears in its day's row; synthetic slots lie between their neighbours
    day_index = {d_: i for i, d_ in enumerate(uniq)}
    for i, d_ in enumerate(uniq):
        vals = k[dates == d_]
        row = X[i]
        if len(vals) == 24:
            if not np.array_equal(row, vals):
                return cls, "normal-day-slots-changed"
        else:
            if np.any(np.diff(row) <= 0):
                return cls, "transition-day-slots-not-increasing"
            if row[0] < vals[0] - 1 or row[-1] > vals[-1] + 1:
                return cls, "transition-day-slots-outside-the-day"
            whole = row[row == np.round(row)]
            if not set(whole.tolist()) <= set(vals.tolist()):
                return cls, "transition-day-slot-from-another-day"
    pred = np.arange(ndays * 24, dtype=float)
    try:
        out = _transform_dst(pred, dst)
    except Exception as e:
        return cls, "transform_dst-raised:" + type(e).__name__
    if len(out) != n:
        return cls, "output-length-%+d" % (len(out) - n)
    if not np.all(np.diff(out) > 0):
        return cls, "output-not-chronological"
    # every instant of a normal day maps to its own (date, hour) slot
    hours = idx.hour.values
    for i, d_ in enumerate(uniq):
        sel = dates == d_
        if sel.sum() == 24:
            if not np.array_equal(out[sel], i * 24 + hours[sel]):
                return cls, "normal-day-instant-mapped-to-another-slot"
        else:
            o = out[sel]
            if o[0] < i * 24 or o[-1] > i * 24 + 23:
                return cls, "transition-day-instant-mapped-to-another-day"
            whole = o == np.round(o)
            if not np.array_equal(o[whole] - i * 24, hours[sel][whole]):
                return cls, "transition-day-instant-mapped-to-another-hour"
    return cls, "ok"


def step_case(spec, keys):
    hist = {}
    for (name, t_iso, d) in spec["transitions"]:
        cls, res = judge_step(name, t_iso, d)
        I.reach("step.transitions")
        hist["%s|%s" % (cls, res.split(":")[0] if res != "ok" else "ok")] = hist.get("%s|%s" % (cls, res.split(":")[0] if res != "ok" else "ok"), 0) + 1
        keys.add("%s|%s" % (name, t_iso))
        if res == "ok":
            I.reach("step.ok")
        else:
            add("dst-step:%s:%s" % (cls, res.split(":")[0]), "zone %s, transition %s (%+.0f s): %s" % (name, t_iso, d, res), zone=name, transition=t_iso, shift_s=d, cls=cls)
    return len(spec["transitions"]), hist


# ---------------------------------------------------------------------------------------------------
def zone_transitions(tz, y0, y1):
    z = pytz.timezone(tz)
    tt = getattr(z, "_utc_transition_times", None) or []
    return [pd.Timestamp(t, tz="UTC").tz_convert(tz) for t in tt if dt.datetime(y0, 1, 1) <= t < dt.datetime(y1, 1, 1)]


def zone_touches_midnight(tz):
    """does the zone have, 2017-2021, a +-1h transition that skips/repeats local midnight or the hour before it, or a non-1h shift?"""
    z = pytz.timezone(tz)
    tt = getattr(z, "_utc_transition_times", None) or []
    infos = getattr(z, "_transition_info", [])
    for i, (t, info) in enumerate(zip(tt, infos)):
        if i == 0 or not (dt.datetime(2017, 1, 1) <= t < dt.datetime(2022, 1, 1)):
            continue
        d = (info[0] - infos[i - 1][0]).total_seconds()
        if d and classify(tz, t.isoformat(), d) != "pm1h-away-from-midnight":
            return True
    return False


def e2e_case(spec, keys):
    fam = FT.Family(spec["family"])
    rng = rng_for(spec["seed"], ID, spec["n"])
    tz = spec["tz"]
    tag = dict(family=spec["family"], tz=tz)
    hourlyish = fam.kind in ("hourly", "caltrack")
    zclass = "zone-with-transition-at-local-midnight" if zone_touches_midnight(tz) else "ordinary-zone"
    if spec.get("baseline_days", 365) < 300:
        zclass += ":partial-year-baseline"
    try:
        bdf = fam.baseline_frame(rng, tz=tz, days=spec.get("baseline_days", 365), start="2018-01-01")
        data = fam.baseline_data(bdf)
        m = fam.fit(fam.new_model(seed=spec["n"] + 1), data)
    except Exception as e:
        import traceback
        tb = traceback.extract_tb(e.__traceback__)
        add("fit-raised:%s:%s:%s:%s" % (fam.kind, type(e).__name__, tb[-1].name, zclass), "baseline of 2018 in %s cannot be prepared/fitted: %s: %s" % (tz, type(e).__name__, str(e)[:160]), **tag)
        return 1
    trs = zone_transitions(tz, 2019, 2021)
    spans = [("year", "2019-01-01", 365, None)]
    for t in trs[:4 if spec["tier"] == "thorough" else 2]:
        d0 = t.tz_localize(None).normalize()
        spans += [("starts-on-transition-day", str(d0.date()), 10, t), ("ends-on-transition-day", str((d0 - pd.Timedelta(days=9)).date()), 10, t),
                  ("transition-inside", str((d0 - pd.Timedelta(days=3)).date()), 7, t)]
    spans += [("two-years", "2019-01-01", 730, None)] if spec["tier"] == "thorough" and hourlyish else []
    n = 0
    for sname, start, days, tr in spans:
        variants = ["plain", "no-usage", "gaps"] if sname != "two-years" else ["plain"]
        if hourlyish and sname != "two-years":
            variants += ["gaps:no-usage"]          # weather gaps (temperature, irradiance) on reporting data without a usage column
        if not hourlyish and sname in ("year", "transition-inside"):
            # frames in which NO row can be modelled still come back with one (non-finite) row per timestamp
            variants += ["no-temperature-at-all", "no-temperature-at-all:no-usage", "usage-only-on-days-without-temperature"]
        if sname != "two-years":
            # exactly one row that cannot be modelled (interior / first row; temperature or usage; with and without a usage column): the count of
            # such rows is an input class of its own (0, 1, many)
            variants += ["single-gap:temperature", "single-gap:temperature:first-row", "single-gap:usage", "single-gap:temperature:no-usage"] if not hourlyish else ["single-gap:temperature"]
        if fam.kind == "daily" and sname != "two-years":
            # daily reads stamped at fixed instants 24 h apart (UTC-stamped / standard-time-all-year meters) seen in the site's zone: the rows do
            # not share one wall-clock time across a DST change
            variants += ["reads-at-fixed-utc-instants", "reads-at-fixed-utc-instants:no-usage"]
        for variant in variants:
            df = fam.reporting_frame(rng, tz, start, min(days, 60) if variant.startswith(("no-temperature", "usage-only")) else days, with_observed=not variant.endswith("no-usage"))
            if variant.startswith("no-temperature-at-all"):
                df["temperature"] = np.nan
                I.reach("e2e.frame_without_a_modelable_row")
            if variant == "usage-only-on-days-without-temperature":
                half = np.arange(len(df)) < len(df) // 2          # usage (no temperature) on the first half, temperature (no usage) on the second
                df.loc[half, "temperature"] = np.nan
                df.loc[~half, "observed"] = np.nan
                I.reach("e2e.frame_without_a_modelable_row")
            if variant.startswith("reads-at-fixed-utc-instants"):
                off = pd.Timestamp(df.index[0]).utcoffset()
                first = (df.index[0].tz_convert("UTC"))
                df.index = pd.date_range(first, periods=len(df), freq="24h").tz_convert(tz)
                I.reach("e2e.daily_rows_at_fixed_instants_24h_apart")
            if variant.startswith("single-gap") and len(df) > 3:
                col = "observed" if ":usage" in variant else "temperature"
                row = 0 if "first-row" in variant else int(rng.integers(1, len(df) - 2))
                df.iloc[row, df.columns.get_loc(col)] = np.nan if (col == "temperature" or rng.random() < 0.5) else 0.0      # a zero electricity read is a missing read
                I.reach("e2e.frame_with_exactly_one_unmodelable_row")
            if variant.startswith("gaps"):
                kk = rng.choice(len(df), size=max(1, len(df) // 15), replace=False)
                df.iloc[kk, df.columns.get_loc("temperature")] = np.nan
                if "ghi" in df.columns:
                    # outages of the irradiance feed: isolated hours and a run of a day and a half
                    kg = rng.choice(len(df), size=max(1, len(df) // 20), replace=False)
                    df.iloc[kg, df.columns.get_loc("ghi")] = np.nan
                    a_ = int(rng.integers(0, max(1, len(df) - 40)))
                    df.iloc[a_:a_ + 36, df.columns.get_loc("ghi")] = np.nan
                    I.reach("e2e.irradiance_gaps")
                if "observed" in df.columns:
                    k2 = rng.choice(len(df), size=max(1, len(df) // 20), replace=False)
                    df.iloc[k2, df.columns.get_loc("observed")] = np.nan
                if not hourlyish and len(df) > 5:
                    df.iloc[int(rng.integers(0, len(df))), df.columns.get_loc("temperature")] = np.inf
            try:
                rd = fam.reporting_data(df)
                frame = rd.df
                p = fam.predict(copy.deepcopy(m), rd)
            except Exception as e:
                import traceback
                tb = traceback.extract_tb(e.__traceback__)
                add("predict-raised:%s:%s:%s:%s" % (fam.kind, type(e).__name__, tb[-1].name, zclass),
                    "%s span (%s, %s) in %s raised %s: %s" % (sname, start, variant, tz, type(e).__name__, str(e)[:160]), span=sname, variant=variant, **tag)
                continue
            I.reach("e2e.predict_judged")
            I.reach("e2e.rows", len(p))
            n += 1
            if tr is not None:
                I.reach("e2e.span_with_transition")
            if not p.index.equals(frame.index):
                miss = len(frame.index.difference(p.index))
                extra = len(p.index.difference(frame.index))
                dup = int(p.index.duplicated().sum())
                add("prediction-index-differs-from-data:%s" % fam.kind, "%s span in %s: %d timestamps dropped, %d foreign, %d duplicated, order kept %s" % (
                    sname, tz, miss, extra, dup, bool(p.index.is_monotonic_increasing)), span=sname, variant=variant, **tag)
                continue
            if not p.index.is_monotonic_increasing or p.index.has_duplicates:
                add("prediction-not-chronological:%s" % fam.kind, "%s span in %s: index not strictly increasing" % (sname, tz), **tag)
            y = p["predicted"].to_numpy(dtype=float)
            if fam.kind == "hourly":
                I.reach("e2e.finiteness_rows", len(y))
                if not np.isfinite(y).all():
                    i = int(np.argmax(~np.isfinite(y)))
                    add("hourly-prediction-not-finite", "%s span in %s (%s): %d rows without a finite prediction, first %s" % (sname, tz, variant, int((~np.isfinite(y)).sum()), p.index[i]),
                        span=sname, variant=variant, **tag)
            elif fam.kind in ("daily", "billing"):
                T = frame["temperature"].to_numpy(dtype=float)
                exp = np.isfinite(T)
                if "observed" in frame.columns:
                    exp &= np.isfinite(frame["observed"].to_numpy(dtype=float))
                I.reach("e2e.finiteness_rows", len(y))
                if not np.array_equal(np.isfinite(y), exp):
                    i = int(np.argmax(np.isfinite(y) != exp))
                    add("daily-prediction-finiteness-pattern:%s" % fam.kind, "%s span in %s (%s): row %s predicted=%r temperature=%r" % (sname, tz, variant, p.index[i], y[i], T[i]),
                        span=sname, variant=variant, **tag)
            if tr is not None or variant.startswith("gaps"):
                keys.add("%s|%s|%s|%s|%s" % (spec["family"], tz, sname, start, variant))
    return n


def imported_case(spec, keys):
    """daily models imported from legacy (2.0) documents (baseline timezone 'UTC' by construction): one row per timestamp, finite exactly on
    the rows with a finite temperature (and usage, when supplied)"""
    import json
    import opendsm.eemeter as em
    from vf import dailybuild as B
    rng = rng_for(spec["seed"], ID, spec["n"])
    n = 0
    for j, kind2 in enumerate(B.KINDS_2_0):
        doc2 = B.draw_2_0_doc(rng, kind2)
        m = em.DailyModel.from_2_0_dict(doc2) if j % 2 else em.DailyModel.from_2_0_json(json.dumps(doc2))
        for variant in ("plain", "no-usage", "gaps", "single-gap", "no-temperature-at-all"):
            df = FT.daily_reporting_df(rng, "UTC", "2019-0%d-01" % (1 + j), int(rng.choice([1, 2, 40, 365])), with_observed=(variant != "no-usage"))
            if variant == "gaps" and len(df) > 5:
                df.iloc[rng.choice(len(df), size=max(1, len(df) // 10), replace=False), 0] = np.nan
                df.iloc[int(rng.integers(0, len(df))), 0] = np.inf
            if variant == "single-gap" and len(df) > 3:
                df.iloc[int(rng.integers(1, len(df) - 1)), 0] = np.nan
            if variant == "no-temperature-at-all":
                df["temperature"] = np.nan
            try:
                rd = em.DailyReportingData(df, is_electricity_data=True)
                frame = rd.df
                p = m.predict(rd)
            except Exception as e:
                add("predict-raised:daily-imported-2.0:%s" % type(e).__name__, "%s model, %s frame of %d rows raised %s: %s" % (kind2, variant, len(df), type(e).__name__, str(e)[:160]), variant=variant)
                continue
            I.reach("e2e.predict_judged")
            I.reach("e2e.imported_2_0_model_judged")
            I.reach("e2e.rows", len(p))
            n += 1
            if not p.index.equals(frame.index):
                add("prediction-index-differs-from-data:daily", "imported %s model, %s frame: index differs from the data object's frame" % (kind2, variant), variant=variant)
                continue
            y = p["predicted"].to_numpy(dtype=float)
            exp = np.isfinite(frame["temperature"].to_numpy(dtype=float))
            if "observed" in frame.columns and variant != "no-usage":
                exp &= np.isfinite(frame["observed"].to_numpy(dtype=float))
            I.reach("e2e.finiteness_rows", len(y))
            if not np.array_equal(np.isfinite(y), exp):
                i = int(np.argmax(np.isfinite(y) != exp))
                add("daily-prediction-finiteness-pattern:daily", "imported %s model, %s frame: row %s predicted=%r temperature=%r" % (kind2, variant, p.index[i], y[i], frame["temperature"].iloc[i]), variant=variant)
            keys.add("imported|%s|%s" % (kind2, variant))
    return n


MIDNIGHT_ZONES = ["America/Havana", "America/Santiago", "Africa/Cairo", "America/Asuncion", "Asia/Beirut", "Asia/Amman", "America/Sao_Paulo", "Asia/Damascus"]


def gen_cases(tier, seed):
    q = tier == "quick"
    trs = all_transitions()
    chunk = 440
    cases = [dict(kind="step", transitions=trs[i:i + chunk], n=i) for i in range(0, len(trs), chunk)]
    zones_h = ["America/Chicago", "Europe/London", "Australia/Sydney", "UTC", "Asia/Kolkata", "America/Los_Angeles"]
    if not q:
        zones_h += ["Europe/Berlin", "Pacific/Auckland", "America/New_York", "Asia/Tokyo", "America/St_Johns", "Australia/Adelaide", "America/Anchorage",
                    "Europe/Lisbon", "America/Halifax", "Asia/Kathmandu", "America/Phoenix", "Africa/Johannesburg", "Pacific/Honolulu", "Europe/Athens",
                    "America/Denver", "Asia/Tehran", "Europe/Dublin", "Africa/Casablanca", "America/Mexico_City", "Pacific/Fiji", "Asia/Karachi", "Europe/Moscow",
                    "America/Bogota", "Asia/Dubai", "Atlantic/Azores", "Pacific/Chatham"]
    k = 100000
    for i, z in enumerate(zones_h):
        cases.append(dict(kind="e2e", family="hourly:default" if i % 3 else "hourly:default:ghi", tz=z, n=k, timeout=3000))
        k += 1
    for i, z in enumerate(MIDNIGHT_ZONES[: (2 if q else len(MIDNIGHT_ZONES))]):
        cases.append(dict(kind="e2e", family="hourly:default", tz=z, midnight=True, n=k, timeout=3000))
        k += 1
    for i, z in enumerate(["America/Chicago", "Europe/London"] if q else ["America/Chicago", "Europe/London", "Australia/Sydney", "UTC", "America/Los_Angeles", "Asia/Kolkata"]):
        cases.append(dict(kind="e2e", family="hourly:default", tz=z, baseline_days=[170, 120, 200][i % 3], n=k, timeout=3000))
        k += 1
    pairs = [["America/Chicago", "America/Regina"], ["America/Phoenix", "America/Denver"]]
    if not q:
        pairs += [["Europe/London", "Atlantic/Reykjavik"], ["Australia/Brisbane", "Australia/Sydney"], ["America/Regina", "America/Chicago"], ["Asia/Tokyo", "Asia/Seoul"],
                  ["Europe/Berlin", "Africa/Lagos"], ["America/New_York", "America/Bogota"]]
    for zs in pairs:
        cases.append(dict(kind="e2e-pair", family="hourly:default", zones=zs, tz=zs[0], n=k, timeout=3000))
        k += 1
    for i in range(2 if q else 12):
        cases.append(dict(kind="imported", family="daily:imported-2.0", tz="UTC", n=k, timeout=1500))
        k += 1
    for i in range(1 if q else 4):
        cases.append(dict(kind="e2e", family="daily:legacy-third-daytype", tz=["America/Chicago", "UTC", "Australia/Sydney", "Europe/London"][i], n=k, timeout=3000))
        k += 1
    dfam = ["daily:current", "billing", "daily:legacy", "caltrack"]
    for i in range(4 if q else 40):
        cases.append(dict(kind="e2e", family=dfam[i % 4] if (q or i % 8) else "caltrack", tz=(zones_h + MIDNIGHT_ZONES)[i % (len(zones_h) + (0 if q else len(MIDNIGHT_ZONES)))], n=k, timeout=3000))
        k += 1
    return cases


def run_case(spec):
    del VIOL[:]
    keys = set()
    hist = {"kind": spec["kind"]}
    if spec["kind"] == "e2e-pair":
        # hostile history: the same instants processed in one process first in zone A, then in zone B (same winter offset,
        # different DST days): nothing learnt about A's clock may leak into B's normalisation
        n = 0
        for tz in spec["zones"]:
            n += e2e_case(dict(spec, tz=tz, kind="e2e"), keys)
        I.reach("e2e.zone_pairs_in_one_process")
        hist["e2e_family"] = spec["family"] + "-pair"
        return dict(viol=[dict(v) for v in VIOL], reach=I.take_reach(), keys=sorted(keys), hist=hist, events=n)
    if spec["kind"] == "step":
        n, h = step_case(spec, keys)
        hist["step_class|result"] = h
    elif spec["kind"] == "imported":
        n = imported_case(spec, keys)
        hist["e2e_family"] = spec["family"]
    else:
        n = e2e_case(spec, keys)
        hist["e2e_family"] = spec["family"]
    return dict(viol=[dict(v) for v in VIOL], reach=I.take_reach(), keys=sorted(keys), hist=hist, events=n)


def finalize(cases, results, tier):
    return {"exhaustive": True, "exhaustive_over": "all UTC-offset transitions 2000-2037 of every zone name in the installed tz database (clock-normalisation step); end-to-end predictions are sampled"}
