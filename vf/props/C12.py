"""C12 — every fitted daily/billing model is physically admissible and well formed.

Wrapper on the real OptimizedResult.__init__ keeps a copy of the optimiser's raw vector, bounds and
scored curve before the read-back chain (_refine_model) runs (the hook the anchor asks for, attached
from outside); after each real fit every stored sub-model (to_dict()['submodels']), every selection
component (model.fit_components) and every final component (model.model) is walked: admissibility
predicates from the statement + curve agreement (component.eval(component.T) vs the curve the
optimiser scored).  A curve mismatch is attributed to a mechanism from (raw vector, stored vector,
segment limits); an unattributable mismatch is a VIOLATION."""
import math

import numpy as np

from vf import instrument as I
from vf import fits as FT
from vf.gen import rng_for
from vf.oracle import daily_formula as F

ID = "C12"
TECHNIQUE = "runtime monitoring: invariant check of every fitted sub-model and component after real fits (admissibility clauses) + hook on OptimizedResult.__init__ capturing the optimiser's raw vector so that stored-vs-scored curves are compared and attributed"
LEVEL = "exploration"
CASE_TIMEOUT = 2400
RULE = ("generated baselines (heating-only / cooling-only / both / flat, weekday and seasonal regimes, outliers, noise 1-20%, 330-365 days, several "
        "zones; integer-rounded temperatures; billing reads) fitted under the current, legacy, billing and developer profiles; every stored "
        "sub-model and every fitted component is judged.  distinct_nontrivial = distinct (profile, usage kind, regime, noise, zone, chosen split, "
        "model types) fits with at least one temperature-dependent sub-model.")
ASSUMPTIONS = ["observed ranges are those of the baseline days the sub-model was fitted on (its season/day-type cells, rows with finite usage and temperature)",
               "range checks carry a tolerance of 1e-9 of the range",
               "the segment limits are the n-th smallest / largest fitted temperature, n = segment_minimum_count"]
REQUIRED_REACH = {"fit.done": 10, "submodel.judged": 10, "component.curve_compared": 60, "hook.optimized_result": 100, "component.final_compared": 10,
                  "component.uncertainty_judged": 60, "component.effective_sample_size_at_its_floor": 1, "data.autocorrelated_residuals": 3, "data.base_load_step": 2, "data.no_positive_slope_on_either_side": 6, "fit.model_object_reused": 3, "data.one_sided_without_flat_segment": 8}

VIOL = []


def add(mech, what, **kw):
    if sum(1 for v in VIOL if v["mech"] == mech) < 3:
        VIOL.append(dict(mech=mech, what=what, **kw))


def init_pre(a, k):
    self = a[0]
    x = a[1] if len(a) > 1 else k.get("x")
    bnds = a[2] if len(a) > 2 else k.get("bnds")
    coef_id = a[3] if len(a) > 3 else k.get("coef_id")
    I.reach("hook.optimized_result")
    self._vf_raw = dict(x=np.array(x, dtype=float).copy(), bnds=np.array(bnds, dtype=float).copy(), coef_id=list(coef_id))


_done = False


def setup_worker():
    global _done
    if _done:
        return
    import opendsm.eemeter  # noqa
    import opendsm.eemeter.models.daily.optimize_results as OR
    I.wrap(OR.OptimizedResult, "__init__", pre=init_pre)
    _done = True


TYPE_FIELDS = {
    "hdd_tidd_cdd_smooth": {"hdd_bp", "hdd_beta", "hdd_k", "cdd_bp", "cdd_beta", "cdd_k"},
    "hdd_tidd_cdd": {"hdd_bp", "hdd_beta", "cdd_bp", "cdd_beta"},
    "hdd_tidd_smooth": {"hdd_bp", "hdd_beta", "hdd_k"},
    "tidd_cdd_smooth": {"cdd_bp", "cdd_beta", "cdd_k"},
    "hdd_tidd": {"hdd_bp", "hdd_beta"},
    "tidd_cdd": {"cdd_bp", "cdd_beta"},
    "tidd": set(),
}


def judge_submodel(key, sub, seg_T, seg_obs, n_seg, where):
    I.reach("submodel.judged")
    c = sub["coefficients"]
    mt = str(getattr(c["model_type"], "value", c["model_type"]))
    tc = sub["temperature_constraints"]
    tag = dict(submodel=key, model_type=mt, coefficients={k: (None if v is None else float(v)) for k, v in c.items() if k != "model_type"},
               temperature_constraints=tc, where=where)
    present = {k for k in ("hdd_bp", "hdd_beta", "hdd_k", "cdd_bp", "cdd_beta", "cdd_k") if c.get(k) is not None}
    if present != TYPE_FIELDS[mt]:
        add("model-type-disagrees-with-coefficients", "%s declares %s but carries %s" % (key, mt, sorted(present)), **tag)
        return
    vals = [float(c[k]) for k in present] + [float(c["intercept"])]
    if not all(math.isfinite(v) for v in vals):
        add("non-finite-coefficient", "%s has a non-finite coefficient" % key, **tag)
        return
    Tlo, Thi = float(np.min(seg_T)), float(np.max(seg_T))
    tolT = 1e-9 * max(1.0, Thi - Tlo)
    for bp in ("hdd_bp", "cdd_bp"):
        if bp in present and not (Tlo - tolT <= c[bp] <= Thi + tolT):
            add("balance-point-outside-observed-temperature-range:" + mt, "%s %s=%.6g outside the observed range [%.6g, %.6g]" % (key, bp, c[bp], Tlo, Thi), **tag)
    if {"hdd_bp", "cdd_bp"} <= present and c["hdd_bp"] > c["cdd_bp"]:
        add("heating-balance-point-above-cooling", "%s hdd_bp %.6g > cdd_bp %.6g" % (key, c["hdd_bp"], c["cdd_bp"]), **tag)
    # slope signs: usage rises away from the balance point; declared slopes are non-zero
    if mt in ("hdd_tidd_cdd", "hdd_tidd_cdd_smooth"):
        signs = {"hdd_beta": 1, "cdd_beta": 1}
    elif mt in ("hdd_tidd", "hdd_tidd_smooth"):
        signs = {"hdd_beta": -1}
    elif mt in ("tidd_cdd", "tidd_cdd_smooth"):
        signs = {"cdd_beta": 1}
    else:
        signs = {}
    for name, sgn in signs.items():
        if c[name] == 0:
            add("declared-slope-is-zero:" + mt, "%s declares %s but it is 0" % (key, name), **tag)
        elif c[name] * sgn < 0:
            add("slope-of-the-wrong-sign:" + mt, "%s %s=%.6g makes usage fall away from the balance point" % (key, name, c[name]), **tag)
    for k in ("hdd_k", "cdd_k"):
        if k in present and c[k] < 0:
            add("negative-smoothing", "%s %s=%.6g" % (key, k, c[k]), **tag)
    olo, ohi = float(np.min(seg_obs)), float(np.max(seg_obs))
    tolO = 1e-9 * max(1.0, ohi - olo)
    if not (olo - tolO <= c["intercept"] <= ohi + tolO):
        pinned = ""
        if mt == "hdd_tidd" and abs(c["hdd_bp"] - tc["T_max_seg"]) <= 1e-9 * max(1, abs(tc["T_max_seg"])):
            pinned = ":heating-line-balance-point-on-T_max_seg"
        if mt == "tidd_cdd" and abs(c["cdd_bp"] - tc["T_min_seg"]) <= 1e-9 * max(1, abs(tc["T_min_seg"])):
            pinned = ":cooling-line-balance-point-on-T_min_seg"
        add("base-load-outside-observed-usage-range:" + mt + pinned, "%s intercept %.6g outside the observed usage range [%.6g, %.6g]" % (key, c["intercept"], olo, ohi), **tag)
    fu = float(sub["f_unc"])
    if not math.isfinite(fu) or fu < 0:
        add("uncertainty-negative-or-non-finite", "%s f_unc=%r" % (key, fu), **tag)
    # recorded temperature limits = those of the days it was fitted on
    srt = np.sort(seg_T)
    exp = dict(T_min=float(srt[0]), T_max=float(srt[-1]), T_min_seg=float(srt[n_seg]) if len(srt) > n_seg else None,
               T_max_seg=float(srt[-n_seg]) if len(srt) >= n_seg else None)
    for k, v in exp.items():
        if v is not None and abs(float(tc[k]) - v) > 1e-9 * max(1.0, abs(v)):
            add("temperature-limits-not-those-of-the-fitted-days:" + k, "%s %s=%.6g, the fitted days give %.6g" % (key, k, tc[k], v), **tag)


def classify_curve_mismatch(comp):
    """attribute a stored-vs-scored curve mismatch from (raw vector, stored vector, segment limits)"""
    raw = getattr(comp, "_vf_raw", None)
    if raw is None:
        return None
    ids, x = raw["coef_id"], raw["x"]
    r = dict(zip(ids, x))
    key = comp.model_key
    st = dict(zip(comp.coef_id, comp.x))
    Tmin, Tmax, Tlo, Thi = comp.T_min, comp.T_max, comp.T_min_seg, comp.T_max_seg
    eq = lambda a, b: abs(a - b) <= 1e-9 * max(1.0, abs(a), abs(b))
    if "c_hdd_bp" in st and "c_hdd_k" not in st:
        raw_bp = r.get("c_hdd_bp", r.get("hdd_bp") if st["c_hdd_beta"] < 0 else r.get("cdd_bp"))
        if raw_bp is not None and (raw_bp < Tlo - 1e-12 or raw_bp > Thi + 1e-12):
            return "K1:single-slope-balance-point-moved-onto-segment-limit"
    if "hdd_bp" in r and "cdd_bp" in r:
        if r["hdd_bp"] > r["cdd_bp"]:
            return "K3:raw-balance-points-reversed-before-un-normalising-percent-k"
        if "hdd_k" in r and ((r["hdd_beta"] == 0 and r["hdd_k"] != 0) or (r["cdd_beta"] == 0 and r["cdd_k"] != 0)):
            return "K2:zero-slope-side-keeps-percent-k-until-fix_full_model_x-zeroes-it"
        if (r["cdd_beta"] != 0 and r["cdd_bp"] >= Tmax - 1e-12) or (r["hdd_beta"] != 0 and r["hdd_bp"] <= Tmin + 1e-12):
            return "K4:non-zero-slope-zeroed-because-balance-point-on-range-limit"
        if "hdd_k" in r and "c_hdd_k" in st:
            return "K5:two-slope-smooth-reduced-to-single-slope-smooth-changes-k-and-shift"
    return None


def judge_component(name, comp, final):
    I.reach("component.curve_compared")
    fu = float(getattr(comp, "f_unc", float("nan")))
    I.reach("component.uncertainty_judged")
    if float(getattr(comp, "DoF", 99)) <= 1:
        I.reach("component.effective_sample_size_at_its_floor")
    if not math.isfinite(fu) or fu < 0:
        add("uncertainty-negative-or-non-finite", "%s component %s: f_unc=%r (N=%r, DoF=%r)" % ("final" if final else "selection", name, fu, getattr(comp, "N", None), getattr(comp, "DoF", None)),
            component=name, final=final)
    if final:
        I.reach("component.final_compared")
    T = np.asarray(comp.T, dtype=float)
    scored = np.asarray(comp.model, dtype=float)
    got = np.asarray(comp.eval(T)[0], dtype=float)
    scale = max(float(np.max(np.abs(scored))), 1e-12)
    d = float(np.max(np.abs(got - scored)))
    if d > 1e-9 * scale:
        mech = classify_curve_mismatch(comp)
        raw = getattr(comp, "_vf_raw", {})
        info = dict(component=name, final=final, model_key=comp.model_key, stored=dict(zip(comp.coef_id, [float(v) for v in comp.x])),
                    raw=dict(zip(raw.get("coef_id", []), [float(v) for v in raw.get("x", [])])),
                    limits=dict(T_min=float(comp.T_min), T_max=float(comp.T_max), T_min_seg=float(comp.T_min_seg), T_max_seg=float(comp.T_max_seg)),
                    max_abs_diff=d, rel=d / scale)
        if mech is None:
            add("stored-coefficients-do-not-reproduce-scored-curve:unattributed", "%s %s: eval(T) differs from the scored curve by %.3g (%.2g of scale)" % (
                "final" if final else "selection", name, d, d / scale), **info)
        else:
            add("stored-coefficients-do-not-reproduce-scored-curve:" + mech, "%s component %s: eval(T) differs from the curve the optimiser scored by %.3g (%.2g of scale): %s" % (
                "final" if final else "selection", name, d, d / scale, mech), **info)
    return d / scale


def gen_cases(tier, seed):
    q = tier == "quick"
    n = 20 if q else 420
    zones = ["America/Chicago", "UTC", "Australia/Sydney", "Europe/London", "Asia/Kolkata", "America/Los_Angeles"]
    profs = ["current", "legacy", "billing", "current", "dev-c_hdd", "dev-nosmooth", "dev-alpha-all", "dev-nofinal", "custom-maps", "legacy-dev-splits"]
    cases = []
    for i in range(n):
        cases.append(dict(kind="fit", profile=profs[i % (4 if q else len(profs))], usage=["both", "heating", "cooling", "flat", "inverted"][(i + i // 4) % 5],
                          weekend=[0.0, 0.3, 0.0, 0.5][(i // 4) % 4], season=[0.0, 0.0, 0.25][(i // 3) % 3], noise=[0.01, 0.05, 0.2, 0.1][(i // 2) % 4],
                          outliers=[0, 0, 6][i % 3], tz=zones[i % len(zones)], n_days=[365, 330, 350][i % 3], round_T=bool(i % 5 == 4), n=i, timeout=2400))
    # shapes for which the initial guess finds no positive slope on either side: flat and inverted-V usage, several noise draws, every profile
    for j in range(9 if q else 90):
        i = n + 1000 + j
        cases.append(dict(kind="fit", profile=["legacy", "current", "billing"][j % 3], usage=["flat", "inverted", "flat"][(j // 3) % 3], weekend=0.0, season=0.0,
                          noise=[0.05, 0.1, 0.2][j % 3], outliers=0, tz=zones[j % len(zones)], n_days=365, round_T=False, n=i, timeout=2400))
    for j in range(4 if q else 40):
        i = n + 3000 + j
        cases.append(dict(kind="fit", profile=["current", "legacy"][j % 2], usage=["both", "heating", "cooling"][j % 3], weekend=[0.0, 0.3][(j // 2) % 2], season=0.0,
                          noise=0.05, outliers=0, tz=zones[j % len(zones)], n_days=365, round_T=False, n=i, timeout=2400, reused_model_object=True))
    for j in range(12 if q else 96):
        i = n + 5000 + j
        cases.append(dict(kind="fit", profile=["legacy", "current", "legacy", "dev-nosmooth"][j % 4], usage=["heating", "cooling"][(j // 2) % 2],
                          usage_shape=["heating-no-flat-segment", "cooling-no-flat-segment"][(j // 2) % 2], days_beyond=[4, 0, 2, 5, 3, 1][j % 6], weekend=0.0, season=0.0,
                          noise=0.0, outliers=0, tz=zones[j % len(zones)], n_days=365, round_T=False, n=i, timeout=2400))
    na = 8 if q else 60
    for j in range(na):
        i = n + j
        cases.append(dict(kind="fit", profile=["current", "legacy"][j % 2], usage=["both", "heating", "cooling", "flat"][j % 4], weekend=0.0, season=0.0,
                          noise=[0.01, 0.03][j % 2], outliers=0, tz=zones[j % len(zones)], n_days=365, round_T=False, n=i, timeout=2400,
                          ar=[0.97, 0.99, 0.0, 0.9][j % 4] or None, step=[0.0, 0.0, 0.6, 0.3][j % 4] or None))
    return cases


def run_case(spec):
    import opendsm.eemeter as em
    rng = rng_for(spec["seed"], ID, spec["n"])
    del VIOL[:]
    keys = set()
    prof = spec["profile"]
    if prof == "billing":
        m, data, df = FT.fit_billing(rng, tz=spec["tz"], kind=spec["usage"], noise=spec["noise"])
    else:
        df = FT.daily_baseline_df(rng, tz=spec["tz"], kind=spec["usage"], n=spec["n_days"], noise=spec["noise"], weekend=spec["weekend"], season=spec["season"], outliers=spec["outliers"])
        if spec["usage_shape"] if "usage_shape" in spec else False:
            # one-sided building WITHOUT a flat segment: the balance point is passed on fewer days than a segment needs (a short warm / cold
            # spell), so the one-sided fit has no temperature-independent days to anchor its base load on
            Tv = df["temperature"].to_numpy(dtype=float).copy()
            kk = int(spec["days_beyond"])
            srt = np.sort(Tv)
            base, slope = float(rng.uniform(8, 40)), float(rng.uniform(0.5, 2.0))
            if spec["usage_shape"] == "heating-no-flat-segment":
                hb = float(srt[-kk - 1] + 3.0) if kk else float(srt[-1] + 2.0)
                if kk:
                    Tv[np.argsort(Tv)[-kk:]] += 10.0                     # the warm spell
                y = base + slope * np.maximum(hb - Tv, 0.0)
            else:
                cb = float(srt[kk] - 3.0) if kk else float(srt[0] - 2.0)
                if kk:
                    Tv[np.argsort(Tv)[:kk]] -= 10.0                      # the cold spell
                y = base + slope * np.maximum(Tv - cb, 0.0)
            df["temperature"] = np.round(Tv, 2)
            df["observed"] = np.round(y + rng.normal(0, 1.0, len(y)), 3)
            I.reach("data.one_sided_without_flat_segment")
        if spec["round_T"]:
            df["temperature"] = df["temperature"].round(0)             # ties in the temperature order statistics
        if spec.get("ar"):
            # non-weather load that persists from day to day (strongly autocorrelated residuals: the effective sample size collapses)
            rho, e, z = float(spec["ar"]), np.zeros(len(df)), rng.normal(0, 1, len(df))
            for i in range(1, len(df)):
                e[i] = rho * e[i - 1] + z[i] * math.sqrt(1 - rho * rho)
            df["observed"] = df["observed"] * (1 + 0.15 * e)
            I.reach("data.autocorrelated_residuals")
        if spec.get("step"):
            # a step change of the base load in the middle of a season (new equipment)
            k = int(rng.integers(40, len(df) - 40))
            df.iloc[k:, df.columns.get_loc("observed")] += float(spec["step"]) * float(np.nanmean(df["observed"]))
            I.reach("data.base_load_step")
        data = em.DailyBaselineData(df, is_electricity_data=True)
        model = FT.make_daily_model(prof)
        if spec.get("reused_model_object"):
            # the object was fitted on ANOTHER meter before (another climate and usage level): nothing of it may survive in the second fit
            df0 = FT.synth_daily(tz=spec["tz"], start="2016-02-01", n=350, seed=rng, kind="both", noise=0.05, mean=70.0)
            df0["observed"] = df0["observed"] * 20.0 + 300.0
            model.fit(em.DailyBaselineData(df0, is_electricity_data=True), ignore_disqualification=True)
            I.reach("fit.model_object_reused")
        m = model.fit(data, ignore_disqualification=True)
    I.reach("fit.done")
    if spec["usage"] in ("flat", "inverted"):
        I.reach("data.no_positive_slope_on_either_side")
    d = m.to_dict()
    n_seg = int(m.settings.segment_minimum_count)
    types = []
    for key, sub in d["submodels"].items():
        seg = m._meter_segment(key, m.df_meter)
        judge_submodel(key, sub, seg["temperature"].to_numpy(dtype=float), seg["observed"].to_numpy(dtype=float), n_seg, "stored")
        types.append(str(getattr(sub["coefficients"]["model_type"], "value", sub["coefficients"]["model_type"])))
    worst = 0.0
    for name, comp in m.fit_components.items():
        worst = max(worst, judge_component(name, comp, final=False))
    for name, comp in m.model.items():
        worst = max(worst, judge_component(name, comp, final=True))
        # stored document == named coefficients of the final component
        nc = comp.named_coeffs.model_dump()
        sc = d["submodels"][name]["coefficients"]
        for k in ("intercept", "hdd_bp", "hdd_beta", "hdd_k", "cdd_bp", "cdd_beta", "cdd_k"):
            if (nc.get(k) is None) != (sc.get(k) is None) or (nc.get(k) is not None and float(nc[k]) != float(sc[k])):
                add("stored-document-differs-from-final-component", "%s.%s stored %r, component %r" % (name, k, sc.get(k), nc.get(k)))
    if any(t != "tidd" for t in types):
        keys.add("%s|%s|%s|%s|%s|%s|%s|%s" % (prof, spec["usage"], spec["weekend"], spec["season"], spec["noise"], spec["tz"], m.best_combination, ",".join(sorted(types))))
    hist = {"model_type": types, "profile": prof, "split": m.best_combination, "n_components": len(m.fit_components)}
    return dict(viol=[dict(v) for v in VIOL], reach=I.take_reach(), keys=sorted(keys), hist=hist, events=1 + len(m.fit_components) + len(m.model))
