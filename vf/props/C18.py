"""C18 — CalTRACK hourly: each hour belongs to its own month; bin features sum to T.

icontract post-conditions on the real segment_time_series, compute_temperature_bin_features,
compute_time_features, compute_occupancy_feature and the two CalTRACK feature processors; boundary
observation of CalTRACKHourlyModel.predict on a hand-built twelve-month model whose month models
predict decodable constants (1000*(month slot) + hour_of_week + T/1000), so month routing, the
hour-of-week label and the sum-to-T identity can be read off the prediction itself."""
import datetime as dt
import itertools
import math
import zoneinfo

import numpy as np
import pandas as pd

from vf import instrument as I
from vf.gen import rng_for, synth_hourly

ID = "C18"
TECHNIQUE = "runtime monitoring: icontract post-conditions on the real segmentation and bin-feature functions (month ownership from zoneinfo, bins sum to T, fill order) + the repository's own tests run under the same contracts (thorough)"
LEVEL = "exploration"
NEEDS_NUMBA = False
CASE_TIMEOUT = 2400
RULE = ("calendar: every hour of 2020 (leap) and 2021 in the listed timezones x the four segmentation types, local month taken from "
        "zoneinfo independently of pandas; bins: all 64 subsets of the six candidate endpoints x temperatures -40..130F (step 0.5) "
        "plus every endpoint +-1ulp, +-inf-free NaN cells; all 168 hours of week; routing: hand-built 12-month model predicted over "
        "both years in each zone; thorough adds real CalTRACK fits.  distinct_nontrivial = distinct (zone, year, segmentation type) "
        "calendars + distinct (endpoint subset) bin tables + distinct routed (zone, year) predictions.")
ASSUMPTIONS = ["an hour's month is its local calendar month in the index's timezone",
               "bin 0 is 'filled' with min(T, first endpoint) (it is unbounded below), the last bin with max(T - last endpoint, 0)"]
REQUIRED_REACH = {"post.segment_time_series": 40, "post.bin_features": 64, "post.time_features": 10, "post.occupancy_feature": 10,
                  "post.prediction_feature_processor": 90, "boundary.routing": 16, "boundary.routing_partial_model": 8, "boundary.routing_month_in_two_runs": 8, "history.same_instants_on_another_wall_clock": 60, "history.same_end_points_and_length_another_interior": 40, "clause.partition_rows": 100000,
                  "clause.bin_cells": 10000, "clause.how_values_168": 1, "post.fit_model_segment": 30, "clause.half_weight_rows_entering_a_fit": 20000, "data.month_lacking_hours_of_the_week_its_neighbours_have": 3}
REQUIRED_REACH_THOROUGH = {"post.fit_feature_processor": 12, "boundary.real_fit_routing": 1, "repo_tests.post.segment_time_series": 5, "repo_tests.post.bin_features": 5}
ENDPOINTS = [30, 45, 55, 65, 75, 90]
MONTHS = ["jan", "feb", "mar", "apr", "may", "jun", "jul", "aug", "sep", "oct", "nov", "dec"]
W3 = ["dec-jan-feb", "jan-feb-mar", "feb-mar-apr", "mar-apr-may", "apr-may-jun", "may-jun-jul", "jun-jul-aug", "jul-aug-sep",
      "aug-sep-oct", "sep-oct-nov", "oct-nov-dec", "nov-dec-jan"]       # slot i is centred on month i+1

VIOL = []
HOW_SEEN = set()


class ContractBroken(Exception):
    pass


def add(mech, what, **kw):
    if sum(1 for v in VIOL if v["mech"] == mech) < 4:
        VIOL.append(dict(mech=mech, what=what, **kw))


def local_fields(index):
    """(month, weekday, hour) of every instant from the zoneinfo database (independent of pandas' field access)."""
    tz = index.tz
    name = getattr(tz, "zone", None) or getattr(tz, "key", None) or str(tz)
    z = dt.timezone.utc if name in ("UTC", "utc") else zoneinfo.ZoneInfo(name)
    secs = index.asi8 // 10 ** 9 if index.unit == "ns" else index.as_unit("s").asi8
    out = np.empty((len(index), 3), dtype=np.int64)
    for i, s in enumerate(secs):
        d = dt.datetime.fromtimestamp(int(s), z)
        out[i] = (d.month, d.weekday(), d.hour)
    return out


def expected_weights(months, segment_type):
    """column name -> expected weight vector, from the statement"""
    m = np.asarray(months)
    if segment_type == "single":
        return {"all": np.ones(len(m))}
    if segment_type == "one_month":
        return {MONTHS[k]: (m == k + 1).astype(float) for k in range(12)}
    out = {}
    for k in range(12):
        own, prev, nxt = k + 1, (k - 1) % 12 + 1, (k + 1) % 12 + 1
        if segment_type == "three_month":
            out[W3[k]] = np.isin(m, [own, prev, nxt]).astype(float)
        else:
            out[W3[k] + "-weighted"] = np.where(m == own, 1.0, np.where((m == prev) | (m == nxt), 0.5, 0.0))
    return out


def seg_post(index, segment_type, drop_zero_weight_segments, result):
    I.reach("post.segment_time_series")
    if not isinstance(index, pd.DatetimeIndex) or index.tz is None or len(index) == 0:
        return True
    try:
        months = local_fields(index)[:, 0]
    except Exception:
        return True
    exp = expected_weights(months, segment_type)
    if not result.index.equals(index):
        add("segmentation-index", "segmentation does not share the input index")
        return True
    I.reach("clause.partition_rows", len(index))
    for name, w in exp.items():
        if name not in result.columns:
            if drop_zero_weight_segments and w.sum() == 0:
                continue
            add("segment-missing", "segment %r missing (%s)" % (name, segment_type), segment_type=segment_type)
            continue
        got = result[name].to_numpy(dtype=float)
        if not np.array_equal(got, w):
            i = int(np.argmax(got != w))
            add("segment-weight-wrong:" + segment_type, "hour %s (local month %d): weight in %r is %r, expected %r" % (index[i], months[i], name, got[i], w[i]),
                segment_type=segment_type, tz=str(index.tz))
    for name in result.columns:
        if name not in exp:
            add("segment-unexpected", "unexpected segment column %r" % name)
    if segment_type == "three_month_weighted" and not drop_zero_weight_segments:
        full = (result.to_numpy() == 1.0).sum(axis=1)
        half = (result.to_numpy() == 0.5).sum(axis=1)
        if not ((full == 1) & (half == 2)).all():
            add("segment-weight-wrong:three_month_weighted", "an hour does not carry full weight in exactly one and half weight in exactly two month models")
    return True


def bins_expected(T, ends):
    ends = list(ends)
    T = np.asarray(T, float)
    k = len(ends)
    out = np.zeros((len(T), k + 1))
    if k == 0:
        out[:, 0] = T
    else:
        out[:, 0] = np.minimum(T, ends[0])
        for i in range(1, k):
            out[:, i] = np.clip(T - ends[i - 1], 0, ends[i] - ends[i - 1])
        out[:, k] = np.maximum(T - ends[k - 1], 0)
    out[np.isnan(T)] = np.nan
    return out


def bin_post(temperatures, bin_endpoints, result):
    I.reach("post.bin_features")
    T = temperatures.to_numpy(dtype=float)
    exp = bins_expected(T, bin_endpoints)
    I.reach("clause.bin_cells", exp.size)
    got = result.to_numpy(dtype=float)
    if got.shape != exp.shape or list(result.columns) != ["bin_%d" % i for i in range(exp.shape[1])]:
        add("bin-shape", "bin feature frame has shape %r/columns %r for %d endpoints" % (got.shape, list(result.columns), len(bin_endpoints)))
        return True
    fin = ~np.isnan(T)
    if not np.array_equal(np.isnan(got), np.isnan(exp)):
        add("bin-nan-pattern", "NaN temperatures do not give NaN bin features (or the converse)", endpoints=list(bin_endpoints))
        return True
    s = got[fin].sum(axis=1)
    tol = 8 * np.spacing(np.maximum(np.abs(T[fin]), 1.0))
    if (np.abs(s - T[fin]) > tol).any():
        i = int(np.argmax(np.abs(s - T[fin])))
        add("bins-do-not-sum-to-T", "bin features sum to %r for T=%r (endpoints %r)" % (s[i], T[fin][i], list(bin_endpoints)), endpoints=list(bin_endpoints))
    d = np.abs(got[fin] - exp[fin])
    if (d > 8 * np.spacing(np.maximum(np.abs(T[fin]), 1.0))[:, None]).any():
        i, j = np.unravel_index(int(np.argmax(d)), d.shape)
        add("bin-filled-out-of-order", "bin_%d = %r for T=%r, expected %r: bins are not filled in order up to their width (endpoints %r)" % (
            j, got[fin][i, j], T[fin][i], exp[fin][i, j], list(bin_endpoints)), endpoints=list(bin_endpoints))
    return True


def time_post(index, hour_of_week, day_of_week, hour_of_day, result):
    I.reach("post.time_features")
    if index.tz is None:
        return True
    f = local_fields(index)
    if hour_of_week:
        got = result["hour_of_week"].astype(int).to_numpy()
        exp = 24 * f[:, 1] + f[:, 2]
        HOW_SEEN.update(int(x) for x in np.unique(got[got == exp]))
        if not np.array_equal(got, exp):
            i = int(np.argmax(got != exp))
            add("hour-of-week-wrong", "hour_of_week of %s is %r, expected 24*weekday+hour = %r" % (index[i], got[i], exp[i]), tz=str(index.tz))
    if day_of_week and not np.array_equal(result["day_of_week"].astype(int).to_numpy(), f[:, 1]):
        add("day-of-week-wrong", "day_of_week differs from the local weekday")
    if hour_of_day and not np.array_equal(result["hour_of_day"].astype(int).to_numpy(), f[:, 2]):
        add("hour-of-day-wrong", "hour_of_day differs from the local hour")
    return True


def occ_post(hour_of_week, occupancy, result):
    I.reach("post.occupancy_feature")
    how = hour_of_week.to_numpy(dtype=float)
    look = {int(k): float(v) for k, v in occupancy.items()}
    exp = np.array([look.get(int(h), np.nan) if not np.isnan(h) else np.nan for h in how])
    got = result.to_numpy(dtype=float)
    if not result.index.equals(hour_of_week.index) or not np.array_equal(np.isnan(got), np.isnan(exp)) or not np.array_equal(got[~np.isnan(got)], exp[~np.isnan(exp)]):
        add("occupancy-feature-wrong", "occupancy feature is not the lookup of each hour's hour-of-week")
    return True


def _exclusive(result, which, occupancy_lookup=None, segment_name=None):
    oc = [c for c in result.columns if c.endswith("_occupied")]
    un = [c for c in result.columns if c.endswith("_unoccupied")]
    a = (result[oc].fillna(0).to_numpy() != 0).any(axis=1)
    b = (result[un].fillna(0).to_numpy() != 0).any(axis=1)
    if occupancy_lookup is not None and segment_name in getattr(occupancy_lookup, "columns", []) and "hour_of_week" in result.columns:
        # the statement is about hours that ARE occupied or unoccupied: a segment whose occupancy is undefined (NaN lookup, as in the
        # repository's own 'nans' fixtures for a segment without data) is outside it
        look = {int(k): v for k, v in occupancy_lookup[segment_name].items()}
        how = pd.to_numeric(result["hour_of_week"], errors="coerce").to_numpy(dtype=float)
        defined = np.array([(not np.isnan(h)) and (look.get(int(h)) is not None) and not (isinstance(look.get(int(h)), float) and np.isnan(look.get(int(h)))) for h in how])
        a, b = a & defined, b & defined
    if (a & b).any():
        i = int(np.argmax(a & b))
        add("occupied-and-unoccupied-both-nonzero", "%s: row %s has non-zero occupied and unoccupied bin features" % (which, result.index[i]))
    return oc, un


def pfp_post(segment_name, segmented_data, occupancy_lookup, occupied_temperature_bins, unoccupied_temperature_bins, result):
    I.reach("post.prediction_feature_processor")
    oc, un = _exclusive(result, "prediction features", occupancy_lookup, segment_name)
    T = segmented_data["temperature_mean"].reindex(result.index).to_numpy(dtype=float)
    s = result[oc + un].to_numpy(dtype=float).sum(axis=1)
    fin = ~np.isnan(T) & ~np.isnan(s)
    if (np.abs(s[fin] - T[fin]) > 8 * np.spacing(np.maximum(np.abs(T[fin]), 1.0))).any():
        add("prediction-features-do-not-sum-to-T", "occupied+unoccupied bin features of a row do not sum to its temperature (segment %r)" % segment_name)
    return True


def ffp_post(segment_name, segmented_data, occupancy_lookup, occupied_temperature_bins, unoccupied_temperature_bins, result):
    I.reach("post.fit_feature_processor")
    _exclusive(result, "fit features", occupancy_lookup, segment_name)
    return True


def seg_usable(segment_name, segment_data):
    """OLD snapshot: the rows a weighted fit can use (every formula column present) and their total weight, taken BEFORE the call"""
    cols = ["meter_value", "hour_of_week", "weight"] + [c for c in segment_data.columns if c.startswith("bin")]
    ok = segment_data[cols].notna().all(axis=1) & (segment_data["weight"] > 0)
    w = segment_data.loc[ok, "weight"].to_numpy(dtype=float)
    return dict(n=int(ok.sum()), wsum=float(w.sum()), n_half=int((w == 0.5).sum()), n_full=int((w == 1.0).sum()))


def segfit_post(segment_name, segment_data, result, OLD):
    I.reach("post.fit_model_segment")
    u = OLD.usable
    mdl = getattr(result, "model", None)
    if mdl is None:
        if u["n"] > 0:
            add("segment-with-usable-rows-not-fitted", "segment %r: %d usable rows (total weight %.1f) but no model was fitted" % (segment_name, u["n"], u["wsum"]))
        return True
    I.reach("clause.rows_entering_the_weighted_fit", u["n"])
    if u["n_half"]:
        I.reach("clause.half_weight_rows_entering_a_fit", u["n_half"])
    wv = np.asarray(mdl.weights, dtype=float)
    n_fit = int((wv > 0).sum())                     # rows of weight 0 may ride along: they do not influence a weighted fit
    w_fit = float(wv.sum())
    if n_fit != u["n"] or abs(w_fit - u["wsum"]) > 1e-9 * max(1.0, u["wsum"]):
        add("rows-dropped-from-a-month-models-weighted-fit", "segment %r: %d usable rows of total weight %.1f (%d at full, %d at half weight) were handed over, %d rows of total weight %.1f entered the fit" % (
            segment_name, u["n"], u["wsum"], u["n_full"], u["n_half"], n_fit, w_fit), segment=segment_name)
    return True


_done = False


def setup_worker():
    global _done
    if _done:
        return
    import icontract
    import opendsm.eemeter  # noqa
    import opendsm.eemeter.models.hourly_caltrack.segmentation as SEG
    import opendsm.eemeter.common.features as FE
    import opendsm.eemeter.models.hourly_caltrack.model as CM
    import opendsm.eemeter.models.hourly_caltrack.wrapper  # noqa
    import opendsm.eemeter.models.hourly_caltrack.design_matrices  # noqa
    for mod, name, post in ((SEG, "segment_time_series", seg_post), (FE, "compute_temperature_bin_features", bin_post),
                            (FE, "compute_time_features", time_post), (FE, "compute_occupancy_feature", occ_post),
                            (CM, "caltrack_hourly_prediction_feature_processor", pfp_post), (CM, "caltrack_hourly_fit_feature_processor", ffp_post)):
        orig = getattr(mod, name)
        dec = icontract.ensure(post, error=ContractBroken)(orig)
        setattr(mod, name, dec)
        I.patch_everywhere(orig, dec)
    orig = CM.fit_caltrack_hourly_model_segment
    dec = icontract.snapshot(seg_usable, name="usable")(icontract.ensure(segfit_post, error=ContractBroken)(orig))
    CM.fit_caltrack_hourly_model_segment = dec
    I.patch_everywhere(orig, dec)
    _done = True


# ---------------------------------------------------------------------------------------------------
def handbuilt(rng, segment_type="three_month_weighted", drop=()):
    from opendsm.eemeter.models.hourly_caltrack.model import CalTRACKHourlyModel
    from opendsm.eemeter.models.hourly_caltrack.segmentation import CalTRACKSegmentModel
    names = [w + "-weighted" for w in W3] if segment_type == "three_month_weighted" else ["all"]
    occ = pd.DataFrame({n: (rng.random(168) < 0.5).astype(int) for n in names}, index=pd.Categorical(range(168)))
    ob = pd.DataFrame({n: rng.random(6) < 0.6 for n in names}, index=pd.Series(ENDPOINTS, name="bin_endpoints"))
    ub = pd.DataFrame({n: rng.random(6) < 0.6 for n in names}, index=pd.Series(ENDPOINTS, name="bin_endpoints"))
    sms = []
    for k, n in enumerate(names):
        params = {"C(hour_of_week)[%d]" % h: 1000.0 * (k + 1) + h for h in range(168)}
        no, nu = int(ob[n].sum()) + 1, int(ub[n].sum()) + 1
        for i in range(no):
            params["bin_%d_occupied" % i] = 1e-3
        for i in range(nu):
            params["bin_%d_unoccupied" % i] = 1e-3
        f = "meter_value ~ C(hour_of_week) - 1" + "".join(" + bin_%d_occupied" % i for i in range(no)) + "".join(" + bin_%d_unoccupied" % i for i in range(nu))
        if k + 1 in drop:
            continue                      # a model that holds only some of the month segments
        sms.append(CalTRACKSegmentModel(n, None, f, params))
    return CalTRACKHourlyModel(sms, occ, ob, ub, segment_type)


def calendar_case(spec, keys):
    from opendsm.eemeter.models.hourly_caltrack.segmentation import segment_time_series
    from opendsm.eemeter.common.features import compute_time_features
    rng = rng_for(spec["seed"], ID, 1, spec["zi"], spec.get("win", 0))
    tz = spec["tz"]
    # calendar years, a 365-day window that starts mid-month (March occurs in two separate runs) and a two-year window (every month twice)
    for year, (w0, w1) in (("2020", ("2020-01-01", "2021-01-01")), ("2021", ("2021-01-01", "2022-01-01")),
                           ("2020-03-15..2021-03-14", ("2020-03-15", "2021-03-15")), ("2020+2021", ("2020-01-01", "2022-01-01")))[spec.get("win", 0):spec.get("win", 3) + 1]:
        idx = pd.date_range(pd.Timestamp(w0, tz=tz), pd.Timestamp(w1, tz=tz), freq="h", inclusive="left")
        if "-" in year or "+" in year:
            I.reach("boundary.routing_month_in_two_runs")
        for st in ("single", "one_month", "three_month", "three_month_weighted"):
            segment_time_series(idx, st)
            segment_time_series(idx[: int(rng.integers(30, 4000))], st, drop_zero_weight_segments=True)
            keys.add("cal|%s|%s|%s" % (tz, year, st))
        # ---- the same period seen again in one process: the same instants on another wall clock (a fleet in several zones served from one UTC
        #      archive), and other indexes with the same end points and length (a missing hour here or there); every call is judged by the contract
        others = [z for z in ("UTC", "America/Los_Angeles", "Asia/Kolkata", "Australia/Sydney", "Europe/Berlin") if z != tz][: 2 if year in ("2021", "2020+2021") else 4]
        for z2 in others:
            idx2 = idx.tz_convert(z2)
            for st in ("one_month", "three_month", "three_month_weighted"):
                segment_time_series(idx2, st)
                I.reach("history.same_instants_on_another_wall_clock")
            m0 = handbuilt(rng)
            T0 = pd.Series(rng.uniform(-30, 120, len(idx2)).round(3), index=idx2)
            p0 = m0.predict(idx2, T0).result["predicted_usage"].reindex(idx2)
            f0 = local_fields(idx2)
            y0 = p0.to_numpy(dtype=float)
            ok0 = ~np.isnan(y0)
            if not np.array_equal((np.round(y0[ok0] - T0.to_numpy()[ok0] / 1000.0) // 1000).astype(int), f0[ok0, 0]) or (~ok0).any():
                add("routing-wrong-month-model", "%s seen in %s after %s in one process: hours predicted by another month's model (or by none)" % (year, z2, tz), tz=z2)
        for rep in range(3):
            # the hour that is absent moves across a month boundary: same first/last timestamp, same length, another calendar
            b = int(np.flatnonzero(np.diff(local_fields(idx)[:, 0]) != 0)[rep % 11]) if len(idx) > 2000 else 5
            for k in (b - 2, b + 3):
                idx3 = idx.delete(k)
                for st in ("one_month", "three_month_weighted"):
                    segment_time_series(idx3, st)
                    I.reach("history.same_end_points_and_length_another_interior")
        compute_time_features(idx)
        # ---- routing through the real predict, hand-built model ------------------------------------------
        m = handbuilt(rng)
        T = pd.Series(rng.uniform(-30, 120, len(idx)).round(3), index=idx)
        T.iloc[rng.choice(len(idx), 50, replace=False)] = np.array(ENDPOINTS + [ENDPOINTS[0]] * 44, float)
        p = m.predict(idx, T).result["predicted_usage"]
        I.reach("boundary.routing")
        f = local_fields(idx)
        y = p.to_numpy(dtype=float)
        if not p.index.equals(idx) or np.isnan(y).any():
            add("routing-unpredicted-hour", "%d hours of %s in %s are predicted by no month model" % (int(np.isnan(y).sum()), year, tz), tz=tz)
        ok = ~np.isnan(y)
        r = np.round(y[ok] - T.to_numpy()[ok] / 1000.0)
        slot = (r // 1000).astype(int)
        how = (r % 1000).astype(int)
        if not np.array_equal(slot, f[ok, 0]):
            i = int(np.argmax(slot != f[ok, 0]))
            add("routing-wrong-month-model", "hour %s (local month %d) was predicted by the model centred on month %d" % (idx[ok][i], f[ok, 0][i], slot[i]), tz=tz)
        if not np.array_equal(how, 24 * f[ok, 1] + f[ok, 2]):
            add("routing-hour-of-week", "prediction used another hour-of-week coefficient than 24*weekday+hour", tz=tz)
        frac = y[ok] - r
        if (np.abs(frac - T.to_numpy()[ok] / 1000.0) > 1e-9).any():
            add("routing-bin-sum", "bin features seen by the month model do not sum to the temperature", tz=tz)
        keys.add("route|%s|%s" % (tz, year))
        # ---- a model that holds only some month segments: the hours of a month without a model are predicted by nobody ----
        drop = set(int(x) for x in rng.choice(np.arange(1, 13), size=int(rng.integers(2, 6)), replace=False))
        m2 = handbuilt(rng, drop=drop)
        p2 = m2.predict(idx, T).result["predicted_usage"].reindex(idx)
        y2 = p2.to_numpy(dtype=float)
        own_missing = np.isin(f[:, 0], sorted(drop))
        I.reach("boundary.routing_partial_model")
        if (~np.isnan(y2[own_missing])).any():
            i = int(np.argmax(own_missing & ~np.isnan(y2)))
            add("hour-predicted-although-its-month-has-no-model", "%d hours of months %s (no month model) carry a prediction; e.g. %s -> %r" % (
                int((~np.isnan(y2[own_missing])).sum()), sorted(drop), idx[i], y2[i]), tz=tz)
        ok2 = ~own_missing
        if np.isnan(y2[ok2]).any():
            add("routing-unpredicted-hour", "partial model: %d hours of months that do have a model are not predicted" % int(np.isnan(y2[ok2]).sum()), tz=tz)
        else:
            r2 = np.round(y2[ok2] - T.to_numpy()[ok2] / 1000.0)
            if not np.array_equal((r2 // 1000).astype(int), f[ok2, 0]):
                add("routing-wrong-month-model", "partial model: an hour was predicted by another month's model", tz=tz)
    if len(HOW_SEEN) == 168:
        I.reach("clause.how_values_168")
    return 8 + 2 + 2


def bins_case(spec, keys):
    from opendsm.eemeter.common.features import compute_temperature_bin_features, compute_occupancy_feature
    rng = rng_for(spec["seed"], ID, 2)
    grid = list(np.arange(-40, 130.01, 0.5))
    for e in ENDPOINTS:
        grid += [float(e), float(np.nextafter(e, np.inf)), float(np.nextafter(e, -np.inf))]
    grid += [float("nan"), 0.0, -0.0, 1e-300, -1e-300]
    grid = np.array(grid)
    rng.shuffle(grid)
    idx = pd.date_range("2020-01-01", periods=len(grid), freq="h", tz="UTC")
    n = 0
    for r in range(7):
        for sub in itertools.combinations(ENDPOINTS, r):
            compute_temperature_bin_features(pd.Series(grid, index=idx), list(sub))
            keys.add("bins|" + ",".join(map(str, sub)))
            n += 1
    # arbitrary (non-candidate) endpoints too
    for _ in range(40):
        k = int(rng.integers(0, 9))
        ends = sorted(set(np.round(rng.uniform(-20, 110, k), 1).tolist()))
        compute_temperature_bin_features(pd.Series(rng.uniform(-60, 140, 300), index=idx[:300]), ends)
        n += 1
    how = pd.Series(pd.Categorical(list(range(168)) * 2), index=pd.date_range("2020-01-06", periods=336, freq="h", tz="UTC"), name="hour_of_week")
    for _ in range(12):
        occ = pd.Series((rng.random(168) < 0.5).astype(int), index=pd.Categorical(range(168)))
        compute_occupancy_feature(how, occ)
        n += 1
    return n


def fit_case(spec, keys):
    import opendsm.eemeter as em
    from opendsm.eemeter.models.hourly_caltrack.wrapper import HourlyModel as CTModel
    from opendsm.eemeter.models.hourly_caltrack.data import HourlyBaselineData as CTB, HourlyReportingData as CTR
    rng = rng_for(spec["seed"], ID, 3, spec["batch"])
    tz = spec["tz"]
    df = synth_hourly(tz=tz, start="2019-01-01", days=365, seed=rng)
    hole = spec.get("hole")
    if hole:
        # a month that has usable data but lacks some hours of the week entirely, while its neighbours have them
        mth = int(rng.integers(2, 12))
        inm = df.index.month.values == mth
        if hole == "weekends-of-a-month":
            df.loc[inm & (df.index.dayofweek.values >= 5), "observed"] = np.nan            # logger offline on the weekends of one month
        elif hole == "month-with-five-valid-days":
            keep = np.isin(df.index.day.values, [3, 4, 5, 6, 7])
            df.loc[inm & ~keep, "observed"] = np.nan
        elif hole == "weekly-maintenance-hours":
            df.loc[inm & (df.index.dayofweek.values == 2) & (df.index.hour.values >= 8) & (df.index.hour.values < 12), "observed"] = np.nan
        I.reach("data.month_lacking_hours_of_the_week_its_neighbours_have")
    m = CTModel(settings=None).fit(CTB(df.copy(), is_electricity_data=True))
    # replace the twelve fitted month models by decodable ones, keep the fitted occupancy / bin tables: real routing tables
    inner = m.model.model
    for k, sm in enumerate(inner.segment_models):
        pos = [w + "-weighted" for w in W3].index(sm.segment_name)
        new = {}
        for name in sm.model_params:
            if name.startswith("C(hour_of_week)"):
                h = int(name.split("[")[1].rstrip("]").replace("T.", ""))
                new[name] = 1000.0 * (pos + 1) + h
            else:
                new[name] = 1e-3
        sm.model_params = new
    rdf = synth_hourly(tz=tz, start="2020-01-01", days=366, seed=rng)
    out = m.predict(CTR(rdf.copy(), is_electricity_data=True))
    col = "predicted" if "predicted" in out.columns else [c for c in out.columns if "predict" in c][0]
    y = out[col].to_numpy(dtype=float)
    idx = out.index
    f = local_fields(idx)
    T = rdf["temperature"].reindex(idx).to_numpy()
    ok = ~np.isnan(y)
    I.reach("boundary.real_fit_routing")
    r = np.round(y[ok] - T[ok] / 1000.0)
    slot = (r // 1000).astype(int)
    if not np.array_equal(slot, f[ok, 0]):
        i = int(np.argmax(slot != f[ok, 0]))
        add("routing-wrong-month-model", "fitted model: hour %s (month %d) predicted by the model centred on month %d" % (idx[ok][i], f[ok, 0][i], slot[i]), tz=tz)
    if (~ok).mean() > 0.02:
        add("routing-unpredicted-hour", "fitted model: %.1f%% of the reporting hours are predicted by no month model" % (100 * (~ok).mean()), tz=tz)
    keys.add("fit|" + tz)
    return 2


ZONES_Q = ["UTC", "America/Chicago", "Australia/Sydney", "Asia/Kolkata"]
ZONES_T = ZONES_Q + ["Europe/London", "America/Los_Angeles", "Europe/Berlin", "Pacific/Auckland", "Asia/Tokyo", "America/Sao_Paulo",
                     "America/New_York", "Africa/Johannesburg", "America/Anchorage", "Pacific/Honolulu", "Asia/Dubai", "Europe/Moscow",
                     "America/Denver", "Asia/Shanghai", "Pacific/Kiritimati", "Etc/GMT+12", "America/Halifax", "Europe/Athens",
                     "Australia/Perth", "America/Mexico_City"]


def gen_cases(tier, seed):
    zones = ZONES_Q if tier == "quick" else ZONES_T
    cases = [dict(kind="calendar", tz=z, zi=i, win=w) for i, z in enumerate(zones) for w in range(4)] + [dict(kind="bins")]      # one worker per (zone, window)
    holes = ["weekends-of-a-month", "month-with-five-valid-days", "weekly-maintenance-hours"]
    cases += [dict(kind="fit", tz=["America/Chicago", "UTC", "Australia/Sydney", "Europe/Berlin"][i % 4], batch=100 + i, hole=holes[i % 3], timeout=3000) for i in range(3 if tier == "quick" else 9)]
    if tier == "thorough":
        cases += [dict(kind="fit", tz=z, batch=i, timeout=3000) for i, z in enumerate(["America/Chicago", "Australia/Sydney"])]
        cases.append(dict(kind="repo-tests", timeout=3000))
    return cases


def run_case(spec):
    del VIOL[:]
    keys = set()
    if spec["kind"] == "calendar":
        n = calendar_case(spec, keys)
    elif spec["kind"] == "repo-tests":
        from vf.pytest_contracts import repo_tests_case
        res = repo_tests_case(ID, ["tests/test_segmentation.py", "tests/test_features.py", "tests/test_caltrack_hourly.py", "tests/test_caltrack_design_matrices.py"])
        for v in res["viol"].get(ID, []):
            VIOL.append(dict(v, where="repository's own tests under contracts"))
        reach = {"repo_tests." + k: n for k, n in res["reach"].items() if k.startswith("post.")}
        keys.add("repo-tests")
        return dict(viol=[dict(v) for v in VIOL], reach=reach, keys=sorted(keys), hist={"kind": "repo-tests"}, events=sum(reach.values()))
    elif spec["kind"] == "bins":
        n = bins_case(spec, keys)
    else:
        n = fit_case(spec, keys)
    return dict(viol=[dict(v) for v in VIOL], reach=I.take_reach(), keys=sorted(keys), hist={"kind": spec["kind"]}, events=n)


def finalize(cases, results, tier):
    return {"exhaustive": True, "exhaustive_over": "hours of 2020+2021 per listed zone x 4 segmentation types; 64 endpoint subsets x temperature grid; 168 hours of week"}
