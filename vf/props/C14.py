"""C14 — approved-method settings are locked unless developer mode is explicit.

Constructor boundary monitor, exhaustive over every field of the daily / legacy / billing / hourly
settings trees (field list by pydantic introspection, approved constants from an independent table),
plus a recording wrapper on the real recursive validator `_check_developer_mode` that logs every
(class, field) it inspects: a developer-only field that was never inspected is a hole."""
import copy
import enum
import json

import numpy as np

from vf import instrument as I
from vf.gen import rng_for, synth_daily, synth_hourly
from vf.oracle import approved as A

ID = "C14"
TECHNIQUE = 'runtime monitoring: exhaustive driving of the real settings constructors over every field (pydantic introspection) x value tables with an expected accept/reject table; wrapper on _check_developer_mode counts the fields it inspected; stored-settings snapshots around real fits'
LEVEL = "exploration"
NEEDS_NUMBA = True
CASE_TIMEOUT = 1500
RULE = ("exhaustive over every field of the Daily, Legacy, Billing and Hourly (base/solar/non-solar, nested temperature-bin / "
        "clustering / elastic-net) settings trees x 1-3 alternative valid values x key variants {lower, UPPER, ' padded '} x "
        "{model constructor, settings class} x developer_mode {absent, False, True}; invalid values and cross-field validator "
        "boundaries; explicit defaults; non-developer fields; stored settings of parameter-built and fitted models.  "
        "distinct_nontrivial = distinct (family, field path, value, key variant, entry point, developer_mode) constructions "
        "whose settings differ from the defaults.")
ASSUMPTIONS = ["the approved constants are those of vf/oracle/approved.py (copied from the pinned release's documentation)",
               "the hourly tree has no developer-only fields: for it only defaults, validity and round trip are decided",
               "BillingModel uses the legacy daily profile"]
REQUIRED_REACH = {"ctor.locked_rejected": 300, "ctor.developer_accepted": 150, "ctor.invalid_rejected": 100,
                  "ctor.nondeveloper_accepted": 40, "ctor.explicit_default_accepted": 100, "defaults.compared": 7, "defaults.compared_in_an_order": 60, "derived.settings_compared": 12,
                  "validator.check_developer_mode.calls": 500, "ctor.callers_settings_dict_compared": 1000, "stored.param_built": 20, "stored.fitted": 2, "stored.hourly_fit_with_settings_snapshot": 5, "stored.hourly_fit_used_a_supplemental_column": 2,
                  "hourly.valid_accepted": 50, "hourly.invalid_rejected": 70, "cross.judged": 30}
EXHAUSTIVE = True

VIOL = []
INSPECTED = set()


def add(mech, what, **kw):
    VIOL.append(dict(mech=mech, what=what, **kw))


def norm(v):
    if isinstance(v, enum.Enum):
        return norm(v.value)
    if isinstance(v, dict):
        return {str(k): norm(x) for k, x in v.items()}
    if isinstance(v, (list, tuple)):
        return [norm(x) for x in v]
    if isinstance(v, bool) or v is None:
        return v
    if isinstance(v, (int, float, np.integer, np.floating)):
        return float(v)
    if isinstance(v, str):
        return v.lower().strip()
    return v


def get_path(d, path):
    for p in path.split("."):
        d = d[p]
    return d


def nest(path, value):
    parts = path.split(".")
    out = cur = {}
    for p in parts[:-1]:
        cur[p] = {}
        cur = cur[p]
    cur[parts[-1]] = value
    return out


def merge(a, b):
    out = copy.deepcopy(a)
    for k, v in b.items():
        if isinstance(v, dict) and isinstance(out.get(k), dict):
            out[k] = merge(out[k], v)
        else:
            out[k] = copy.deepcopy(v)
    return out


def keyvar(d, variant):
    f = {"lower": lambda s: s, "UPPER": lambda s: s.upper(), "padded": lambda s: "  " + s.title() + " "}[variant]
    return {f(k): (keyvar(v, variant) if isinstance(v, dict) else v) for k, v in d.items()}


def validator_pre(a, k):
    obj = a[0]
    I.reach("validator.check_developer_mode.calls")
    for name in type(obj).model_fields:
        INSPECTED.add(type(obj).__name__ + "." + name)


_done = False


def setup_worker():
    global _done
    if _done:
        return
    import opendsm.eemeter  # noqa
    import opendsm.eemeter.models.daily.utilities.settings as S
    I.wrap(S, "_check_developer_mode", pre=validator_pre)
    _done = True


def walk_fields(cls, prefix=""):
    """(path, developer flag, field info) for every leaf of a pydantic settings class tree"""
    from opendsm.common.base_settings import BaseSettings
    import typing
    out = []
    for name, f in cls.model_fields.items():
        ann = f.annotation
        sub = None
        for cand in [ann] + list(typing.get_args(ann)):
            if isinstance(cand, type) and issubclass(cand, BaseSettings):
                sub = cand
        dev = bool((f.json_schema_extra or {}).get("developer")) if isinstance(f.json_schema_extra, dict) else None
        if sub is not None:
            out += walk_fields(sub, prefix + name + ".")
        else:
            out.append((prefix + name, dev, f))
    return out


def try_build(fn, settings):
    """builds; the caller's settings dict is the caller's: it is compared with a snapshot taken before the call, and a second construction
    from the very same dict object (one config dict, one model per meter) must give the same settings"""
    before = copy.deepcopy(settings) if isinstance(settings, dict) else None
    try:
        r, err = fn(settings), None
    except Exception as e:   # pydantic ValidationError / ValueError / TypeError
        r, err = None, e
    if before is not None:
        I.reach("ctor.callers_settings_dict_compared")
        if settings != before:
            add("constructor-modified-callers-settings-dict", "settings dict %r became %r during construction" % (before, settings))
        elif r is not None:
            try:
                r2 = fn(settings)
                d1, d2 = (getattr(x, "settings", x) for x in (r, r2))
                if hasattr(d1, "model_dump") and norm(d1.model_dump()) != norm(d2.model_dump()):
                    add("second-construction-from-the-same-dict-differs", "settings %r: the second construction gives other settings" % (before,))
            except Exception as e2:
                add("second-construction-from-the-same-dict-differs", "settings %r: the second construction raised %s" % (before, type(e2).__name__))
    return r, err


def daily_family(fam, spec, keys, hist):
    import opendsm.eemeter as em
    import opendsm.eemeter.models.daily.utilities.settings as S
    cls = S.DailySettings if fam == "current" else S.DailyLegacySettings
    approved = {"current": A.DAILY, "legacy": A.LEGACY, "billing": A.BILLING}[fam]

    def via_model(st):
        if fam == "billing":
            return em.BillingModel(settings=st).settings
        return em.DailyModel(model=fam if fam != "current" else "current", settings=st).settings

    def via_class(st):
        return cls(**(st or {}))
    entries = {"model": via_model, "class": via_class}
    n_ctor = 0
    # ---- 1. defaults --------------------------------------------------------------------------------
    for ename, fn in entries.items():
        s = fn(None)
        dump = norm(s.model_dump())
        I.reach("defaults.compared")
        extra = set(dump) - set(approved)
        if extra:
            raise RuntimeError("settings field(s) %s not in the approved table: extend vf/oracle/approved.py" % sorted(extra))
        for k, v in norm(approved).items():
            if k not in dump:
                add("approved-constant-missing", "%s settings have no field %r" % (fam, k))
            elif dump[k] != v:
                add("default-differs-from-approved-constant", "%s default %s = %r, approved %r" % (fam, k, dump[k], v), family=fam, field=k)
    # ---- 2. which fields are developer-only ---------------------------------------------------------
    leaves = walk_fields(cls)
    dev_paths = {p for p, dev, f in leaves if dev}
    missing_lock = A.DAILY_DEVELOPER_FIELDS - dev_paths
    for p in sorted(missing_lock):
        add("developer-flag-removed", "field %s is developer-only in the approved method but is not flagged in %s" % (p, cls.__name__), field=p)
    new = dev_paths - A.DAILY_DEVELOPER_FIELDS
    if new:
        raise RuntimeError("developer field(s) %s unknown to the approved table" % sorted(new))
    defaults = norm(via_class(None).model_dump())
    # ---- 3. the lock ----------------------------------------------------------------------------------
    for path in sorted(A.DAILY_DEVELOPER_FIELDS):
        dflt = get_path(defaults, path)
        for alt, extra in A.DAILY_ALTERNATIVES[path]:
            if alt == "NOT":
                alt = not dflt
            elif alt == "ALT_ADAPTIVE":
                alt = 1.0 if dflt == "adaptive" else "adaptive"
            if norm(alt) == dflt:
                continue
            st0 = merge(nest(path, alt), extra)
            for variant in ("lower", "UPPER", "padded"):
                for ename, fn in entries.items():
                    for dm in ("absent", False, True, "silent-only", "silent-and-false"):
                        st = keyvar(st0, variant)
                        if dm is True:
                            st.update({"developer_mode": True, "silent_developer_mode": True} if variant == "lower" else
                                      {"DEVELOPER_MODE": True, "SILENT_DEVELOPER_MODE": True})
                        elif dm is False:
                            st["developer_mode"] = False
                        elif dm == "silent-only":                     # the flag that only silences the notice is not an unlock
                            st["silent_developer_mode"] = True
                        elif dm == "silent-and-false":
                            st.update(developer_mode=False, silent_developer_mode=True)
                        s, err = try_build(fn, st)
                        n_ctor += 1
                        keys.add("%s|%s|%r|%s|%s|%s" % (fam, path, alt, variant, ename, dm))
                        if dm is True:
                            if err is not None:
                                add("developer-mode-change-rejected", "%s=%r rejected although developer_mode=True: %s" % (path, alt, str(err)[:160]),
                                    family=fam, field=path, variant=variant, entry=ename)
                            else:
                                I.reach("ctor.developer_accepted")
                                got = get_path(norm(s.model_dump()), path)
                                if got != norm(alt):
                                    add("setting-not-stored", "%s=%r accepted but stored as %r" % (path, alt, got), family=fam, field=path, variant=variant)
                        else:
                            if err is None:
                                add("developer-lock-open", "%s changed to %r without developer_mode=True (developer_mode %s) and accepted" % (path, alt, dm),
                                    family=fam, field=path, variant=variant, entry=ename, developer_mode=str(dm))
                            else:
                                I.reach("ctor.locked_rejected")
        # explicit default is not a change
        raw_default = get_path(via_class(None).model_dump(), path)
        raw_default = raw_default.value if isinstance(raw_default, enum.Enum) else raw_default
        for variant in ("lower", "UPPER", "padded"):
            for ename, fn in entries.items():
                s, err = try_build(fn, keyvar(nest(path, raw_default), variant))
                n_ctor += 1
                if err is not None:
                    add("explicit-default-rejected", "%s=%r (its default) rejected without developer mode: %s" % (path, raw_default, str(err)[:120]), family=fam, field=path)
                else:
                    I.reach("ctor.explicit_default_accepted")
    # every developer-only field must have been looked at by the recursive validator
    for path in sorted(A.DAILY_DEVELOPER_FIELDS):
        leaf = path.split(".")[-1]
        if not any(x.endswith("." + leaf) for x in INSPECTED):
            add("developer-field-never-inspected", "_check_developer_mode never inspected %s" % path, field=path)
    # ---- 4. non-developer fields ---------------------------------------------------------------------------
    for st0 in A.NON_DEVELOPER_ALTERNATIVES:
        for variant in ("lower", "UPPER", "padded"):
            for ename, fn in entries.items():
                s, err = try_build(fn, keyvar(st0, variant))
                n_ctor += 1
                keys.add("%s|nondev|%s|%s|%s" % (fam, json.dumps(st0, sort_keys=True), variant, ename))
                if err is not None:
                    add("non-developer-setting-rejected", "%r rejected without developer mode: %s" % (st0, str(err)[:160]), family=fam)
                    continue
                I.reach("ctor.nondeveloper_accepted")
                dump = norm(s.model_dump())
                for k, v in st0.items():
                    want = merge(norm(approved)[k], norm(v)) if isinstance(v, dict) else norm(v)
                    if dump[k] != want:
                        add("setting-not-stored", "%s given as %r but stored as %r" % (k, v, dump[k]), family=fam)
                # and the maps actually used for routing follow the setting
                if "season" in st0:
                    months = ["january", "february", "march", "april", "may", "june", "july", "august", "september", "october", "november", "december"]
                    want = {i + 1: dump["season"][m] for i, m in enumerate(months)}
                    if dict(s.season._num_dict) != want:
                        add("season-map-not-applied", "season._num_dict %r != settings %r" % (dict(s.season._num_dict), want), family=fam)
                if "weekday_weekend" in st0:
                    days = ["monday", "tuesday", "wednesday", "thursday", "friday", "saturday", "sunday"]
                    want = {i + 1: dump["weekday_weekend"][d] for i, d in enumerate(days)}
                    if dict(s.weekday_weekend._num_dict) != want:
                        add("weekday-map-not-applied", "weekday_weekend._num_dict %r != settings %r" % (dict(s.weekday_weekend._num_dict), want), family=fam)
    # ---- 5. invalid values -----------------------------------------------------------------------------------
    for path, vals in A.DAILY_INVALID.items():
        for v in vals:
            for dm in (True, "absent"):
                for ename, fn in entries.items():
                    st = nest(path, v)
                    if dm is True:
                        st.update(developer_mode=True, silent_developer_mode=True)
                    s, err = try_build(fn, st)
                    n_ctor += 1
                    keys.add("%s|invalid|%s|%r|%s|%s" % (fam, path, v, ename, dm))
                    if err is None:
                        add("invalid-value-accepted", "%s=%r accepted (developer_mode %s)" % (path, v, dm), family=fam, field=path, value=repr(v))
                    else:
                        I.reach("ctor.invalid_rejected")
    # ---- 6. cross-field validators ------------------------------------------------------------------------------
    for st0, reject in A.DAILY_CROSS:
        if fam != "current" and "alpha_final" in st0 and st0.get("alpha_final") == 2.0:
            pass
        st = dict(st0, developer_mode=True, silent_developer_mode=True)
        s, err = try_build(via_class, st)
        n_ctor += 1
        I.reach("cross.judged")
        keys.add("%s|cross|%s" % (fam, json.dumps(st0, sort_keys=True)))
        if reject and err is None:
            add("cross-field-invalid-accepted", "%r accepted in developer mode" % (st0,), family=fam)
        if not reject and err is not None:
            add("cross-field-valid-rejected", "%r rejected in developer mode: %s" % (st0, str(err)[:160]), family=fam)
    # ---- 7. settings recorded in a stored model (parameter-built) --------------------------------------------------
    from vf import dailybuild as B
    rng = rng_for(spec["seed"], ID, 1)
    pool = [dict()] + [keyvar(x, "lower") for x in A.NON_DEVELOPER_ALTERNATIVES]
    for path in sorted(A.DAILY_DEVELOPER_FIELDS):
        alt, extra = A.DAILY_ALTERNATIVES[path][0]
        dflt = get_path(defaults, path)
        alt = (not dflt) if alt == "NOT" else ((1.0 if dflt == "adaptive" else "adaptive") if alt == "ALT_ADAPTIVE" else alt)
        pool.append(merge(merge(nest(path, alt), extra), dict(developer_mode=True, silent_developer_mode=True)))
    for st in pool:
        try:
            built = via_model(st)
        except Exception:
            continue
        dump = built.model_dump()
        tc = B.draw_tc(rng)
        doc = B.make_doc({"fw-su_sh_wi": dict(coefficients=B.draw_coefficients(rng, "hdd_tidd_cdd", tc), temperature_constraints=tc)},
                         json.loads(json.dumps(norm_json(dump))))
        Model = em.BillingModel if fam == "billing" else em.DailyModel
        try:
            if fam == "legacy":
                m = em.DailyModel(model="legacy", settings=json.loads(json.dumps(norm_json(dump))))   # only route that accepts a legacy profile
                reloaded = norm(m.settings.model_dump())
                stored = reloaded
            else:
                m = Model.from_dict(doc)
                stored = norm(m.to_dict()["settings"])
                reloaded = norm(m.settings.model_dump())
        except Exception as e:
            add("stored-settings-unreadable", "a model document carrying %s settings %r cannot be loaded: %s" % (fam, st, str(e)[:200]), family=fam)
            continue
        I.reach("stored.param_built")
        want = norm(dump)
        if fam == "billing":
            want = dict(want, developer_mode=True)      # documented: BillingModel.to_dict forces developer mode so it reloads
            reloaded = dict(reloaded, developer_mode=True)
        if stored != want:
            diff = [k for k in want if stored.get(k) != want[k]]
            add("stored-settings-differ", "to_dict()['settings'] differs from the settings the model was built with in %s" % diff, family=fam, fields=diff)
        if reloaded != want:
            diff = [k for k in want if reloaded.get(k) != want[k]]
            add("reloaded-settings-differ", "settings after from_dict differ in %s" % diff, family=fam, fields=diff)
    hist["constructions"][fam] = n_ctor
    return n_ctor


def norm_json(v):
    if isinstance(v, enum.Enum):
        return v.value
    if isinstance(v, dict):
        return {k: norm_json(x) for k, x in v.items()}
    if isinstance(v, (list, tuple)):
        return [norm_json(x) for x in v]
    return v


def hourly_family(spec, keys, hist):
    import opendsm.eemeter as em
    import opendsm.eemeter.models.hourly.settings as HS
    n = 0
    for cls, approved in ((HS.BaseHourlySettings, A.HOURLY), (HS.HourlySolarSettings, A.HOURLY_SOLAR), (HS.HourlyNonSolarSettings, A.HOURLY_NONSOLAR)):
        dump = norm(cls().model_dump())
        I.reach("defaults.compared")
        extra = set(dump) - set(approved)
        if extra:
            raise RuntimeError("hourly settings field(s) %s not in the approved table" % sorted(extra))
        for k, v in norm(approved).items():
            if dump.get(k) != v:
                add("default-differs-from-approved-constant", "%s default %s = %r, approved %r" % (cls.__name__, k, dump.get(k), v), family="hourly", field=k)
        for p, dev, f in walk_fields(cls):
            if dev:
                raise RuntimeError("hourly field %s is flagged developer-only: extend the C14 oracle" % p)
    dump = norm(em.HourlyModel().settings.model_dump())
    I.reach("defaults.compared")
    for k, v in norm(A.HOURLY).items():
        if dump.get(k) != v:
            add("default-differs-from-approved-constant", "HourlyModel() default %s = %r, approved %r" % (k, dump.get(k), v), family="hourly", field=k)
    entries = {"model-dict": lambda st: em.HourlyModel(settings=st).settings,
               "model-object": lambda st: em.HourlyModel(settings=HS.BaseHourlySettings(**st)).settings,
               "solar-class": lambda st: HS.HourlySolarSettings(**st), "nonsolar-class": lambda st: HS.HourlyNonSolarSettings(**st)}
    for st0 in A.HOURLY_VALID:
        for variant in ("lower", "UPPER", "padded"):
            for ename, fn in entries.items():
                s, err = try_build(fn, keyvar(st0, variant))
                n += 1
                keys.add("hourly|valid|%s|%s|%s" % (json.dumps(st0, sort_keys=True), variant, ename))
                if err is not None:
                    add("valid-hourly-setting-rejected", "%r rejected: %s" % (st0, str(err)[:200]), family="hourly", entry=ename, variant=variant)
                    continue
                I.reach("hourly.valid_accepted")
                d = norm(s.model_dump())
                for k, v in st0.items():
                    want = merge(norm(A.HOURLY)[k], norm(v)) if isinstance(v, dict) else norm(v)
                    if d[k] != want:
                        add("setting-not-stored", "hourly %s given as %r but stored as %r" % (k, v, d[k]), family="hourly")
                if "seed" in st0 and (s._seed != st0["seed"] or s.elasticnet._seed != st0["seed"] or s.temporal_cluster._seed != st0["seed"]):
                    add("seed-not-propagated", "seed %r not propagated to elasticnet/clustering" % st0["seed"], family="hourly")
    # feature lists through the dict entry of the model constructor (the caller's dict stays as it was; a second model from the same dict is the same)
    for st0 in ({"train_features": ["temperature"]}, {"train_features": ["temperature", "ghi"]}, {"train_features": ["ghi", "temperature"], "seed": 4},
                {"train_features": ["temperature"], "supplemental_time_series_columns": ["occupancy"]}, {"supplemental_categorical_columns": ["holiday"], "seed": 1}):
        given = copy.deepcopy(st0)
        s_, err = try_build(entries["model-dict"], given)
        n += 1
        I.reach("hourly.feature_lists_through_the_model_dict_entry")
        if err is not None:
            add("valid-hourly-setting-rejected", "%r rejected: %s" % (st0, str(err)[:200]), family="hourly", entry="model-dict", variant="lower")
        elif "train_features" in st0 and sorted(s_.train_features or []) != sorted(st0["train_features"]):
            add("setting-not-stored", "hourly train_features given as %r but stored as %r" % (st0["train_features"], s_.train_features), family="hourly")
    for st0 in A.HOURLY_INVALID:
        for ename, fn in entries.items():
            s, err = try_build(fn, copy.deepcopy(st0))
            n += 1
            keys.add("hourly|invalid|%s|%s" % (json.dumps(st0, sort_keys=True), ename))
            if err is None:
                add("invalid-value-accepted", "hourly %r accepted" % (st0,), family="hourly", entry=ename, value=json.dumps(st0))
            else:
                I.reach("hourly.invalid_rejected")
    hist["constructions"]["hourly"] = n
    return n


def fitted(spec, keys, hist):
    import opendsm.eemeter as em
    rng = rng_for(spec["seed"], ID, 2, spec["batch"])
    which = spec["which"]
    if which.startswith("daily"):
        df = synth_daily(tz="America/Chicago", n=365, seed=rng, kind="both", noise=0.05)
        st = {"current-nondev": ("current", {"season": {"march": "winter", "october": "winter"}, "uncertainty_alpha": 0.2}),
              "legacy-dev": ("legacy", {"developer_mode": True, "silent_developer_mode": True, "segment_minimum_count": 8, "split_selection": {"allow_separate_weekday_weekend": True}}),
              "current-dev": ("current", {"developer_mode": True, "silent_developer_mode": True, "alpha_final_type": "all", "full_model": "c_hdd_tidd", "cvrmse_threshold": 0.8}),
              "billing-default": ("billing", None)}[which.split(":")[1]]
        if st[0] == "billing":
            from vf.gen import billing_reads
            tdf, bdf, _ = billing_reads(rng)
            model = em.BillingModel()
            want = norm(model.settings.model_dump())           # snapshot at construction, before any fit
            m = model.fit(em.BillingBaselineData(tdf.join(bdf), is_electricity_data=True), ignore_disqualification=True)
        else:
            model = em.DailyModel(model=st[0], settings=copy.deepcopy(st[1]))
            want = norm(model.settings.model_dump())
            m = model.fit(em.DailyBaselineData(df, is_electricity_data=True), ignore_disqualification=True)
        if norm(m.settings.model_dump()) != want:
            add("stored-settings-differ", "fitted %s: model.settings changed during fit" % which, family=st[0])
        if st[0] == "billing":
            want["developer_mode"] = True
        got = norm(m.to_dict()["settings"])
        I.reach("stored.fitted")
        if got != want:
            add("stored-settings-differ", "fitted %s: to_dict()['settings'] differs in %s" % (which, [k for k in want if got.get(k) != want[k]]), family=st[0])
        js = json.loads(m.to_json())["settings"]
        if norm(js) != want:
            add("stored-settings-differ", "fitted %s: to_json settings differ" % which, family=st[0])
    else:
        df = synth_hourly(days=120, seed=rng, ghi="solar" in which, occupancy="supp" in which)
        st = {"hourly:custom": dict(seed=3, temperature_bin={"bin_width": 10}, elasticnet={"alpha": 0.05}, cvrmse_threshold=1.2),
              "hourly:solar-robust": dict(seed=4, scaling_method="robustscaler", temporal_cluster={"n_cluster_upper": 8}),
              # an explicit None on an Optional section / on Optional values inside a section is a value like any other
              "hourly:none-section": dict(seed=8, temperature_bin=None),
              "hourly:none-values-in-a-section": dict(seed=9, temperature_bin={"include_edge_bins": False, "edge_bin_rate": None, "edge_bin_percent": None}),
              "hourly:supp": dict(seed=0, supplemental_time_series_columns=["occupancy"]),
              "hourly:supp-explicit": dict(seed=5, train_features=["temperature"], supplemental_time_series_columns=["occupancy"]),
              "hourly:supp-object": dict(seed=6, supplemental_time_series_columns=["occupancy"]),
              "hourly:solar-supp-object": dict(seed=7, supplemental_time_series_columns=["occupancy"], train_features=["temperature", "ghi"])}[which]
        given = copy.deepcopy(st)
        if which.endswith("-object"):
            from opendsm.eemeter.models.hourly import settings as HS
            given = (HS.HourlySolarSettings if "solar" in which else HS.HourlyNonSolarSettings)(**copy.deepcopy(st))
            handed = norm(given.model_dump())
        model = em.HourlyModel(settings=given)
        built = norm(model.settings.model_dump())          # what the model was built with
        m = model.fit(em.HourlyBaselineData(df, is_electricity_data=True), ignore_disqualification=True)
        I.reach("stored.hourly_fit_with_settings_snapshot")
        if "supp" in which:
            if "occupancy" not in m.to_dict().get("ts_features", m._ts_features):
                raise RuntimeError("premise: the supplemental column was not used by the fit")
            I.reach("stored.hourly_fit_used_a_supplemental_column")
        if which.endswith("-object") and norm(given.model_dump()) != handed:
            add("callers-settings-object-changed-by-fit", "fitted %s: the settings object handed to the constructor changed in %s" % (
                which, [k for k in handed if norm(given.model_dump()).get(k) != handed[k]]), family="hourly")
        want = dict(built)
        if not built.get("train_features"):
            # features not fixed at construction: fit records the default for the columns present (documented by add_default_features)
            want["train_features"] = ["temperature", "ghi"] if "ghi" in df.columns else ["temperature"]
        got = norm(m.to_dict()["settings"])
        I.reach("stored.fitted")
        if got != want:
            add("stored-settings-differ", "fitted %s: to_dict()['settings'] differs from what the model was built with in %s" % (
                which, {k: (want[k], got.get(k)) for k in want if got.get(k) != want[k]}), family="hourly")
        if norm(m.settings.model_dump()) != want:
            add("stored-settings-differ", "fitted %s: model.settings differs from what the model was built with" % which, family="hourly")
        for k, v in st.items():
            w = merge(norm(A.HOURLY)[k], norm(v)) if isinstance(v, dict) else norm(v)
            if got[k] != w:
                add("stored-settings-differ", "fitted %s: stored %s=%r, built with %r" % (which, k, got[k], v), family="hourly")
        m2 = em.HourlyModel.from_json(m.to_json())
        if norm(m2.settings.model_dump()) != want:
            add("reloaded-settings-differ", "hourly settings after from_json differ", family="hourly")
    keys.add("fitted|" + which)
    return 1


def derived_settings(spec, keys, hist):
    """The settings a fit works with are derived from the model's settings by update_daily_settings(settings, {a few keys}):
    every OTHER field keeps the value the model was built with - for every settings class of the daily family, defaults and custom values."""
    import opendsm.eemeter as em
    import opendsm.eemeter.models.daily.utilities.settings as S
    from opendsm.eemeter.models.billing.settings import BillingSettings
    updates = [{"DEVELOPER_MODE": True, "SILENT_DEVELOPER_MODE": True, "ALPHA_FINAL_TYPE": None, "FINAL_BOUNDS_SCALAR": None},
               {"DEVELOPER_MODE": True, "SILENT_DEVELOPER_MODE": True, "REGULARIZATION_ALPHA": 0.0}]
    customs = [{}, {"developer_mode": True, "silent_developer_mode": True, "segment_minimum_count": 7, "cvrmse_threshold": 0.8, "uncertainty_alpha": 0.2},
               {"season": {"march": "winter"}, "weekday_weekend": {"friday": "weekend"}}]
    n = 0
    for cls in (S.DailySettings, S.DailyLegacySettings, BillingSettings):
        for cu in customs:
            st = cls(**copy.deepcopy(cu))
            before = norm(st.model_dump())
            for up in updates:
                got = norm(S.update_daily_settings(st, dict(up)).model_dump())
                asked = {k.lower() for k in up}
                want = {k: v for k, v in before.items() if k not in asked}          # the fields the call was NOT asked to change
                I.reach("derived.settings_compared")
                n += 1
                bad = {k: (want[k], got.get(k)) for k in want if got.get(k) != want[k]}
                if bad:
                    add("derived-fit-settings-differ-from-the-models-settings:%s" % cls.__name__, "update_daily_settings(%s(%s), %s) changed fields it was not asked to change: %s (built-with, derived)" % (
                        cls.__name__, cu, sorted(up), bad), cls=cls.__name__)
                if norm(st.model_dump()) != before:
                    add("derived-settings-call-changed-its-input", "update_daily_settings changed the settings object it was given")
            keys.add("derived|%s|%s" % (cls.__name__, sorted(cu)))
    return n


def defaults_order(spec, keys, hist):
    """Constructed without arguments, EACH family uses its approved constants - in whatever order the families, the profiles of one
    class and customised / developer models are constructed in one process."""
    import itertools
    import opendsm.eemeter as em
    ctors = {
        "DailyModel()": (lambda: em.DailyModel(), A.DAILY),
        "DailyModel(model='legacy')": (lambda: em.DailyModel(model="legacy"), A.LEGACY),
        "DailyModel(settings={})": (lambda: em.DailyModel(settings={}), A.DAILY),
        "DailyModel(model='legacy', settings={})": (lambda: em.DailyModel(model="legacy", settings={}), A.LEGACY),
        "BillingModel()": (lambda: em.BillingModel(), A.BILLING),
        "HourlyModel()": (lambda: em.HourlyModel(), A.HOURLY),
    }
    custom = [lambda: em.DailyModel(settings={"developer_mode": True, "silent_developer_mode": True, "alpha_final": 1.5, "segment_minimum_count": 9, "cvrmse_threshold": 0.7}),
              lambda: em.DailyModel(model="legacy", settings={"developer_mode": True, "silent_developer_mode": True, "allow_smooth_model": True, "uncertainty_alpha": 0.3}),
              lambda: em.BillingModel(settings={"season": {"march": "winter"}}),
              lambda: em.HourlyModel(settings={"temperature_bin": {"bin_width": 8}, "cvrmse_threshold": 0.9, "seed": 0})]
    names = list(ctors)
    rng = rng_for(spec["seed"], ID, 9, spec["batch"])
    perms = list(itertools.permutations(names[:5]))
    rng.shuffle(perms)
    n = 0
    for perm in [tuple(names)] + [tuple(reversed(names))] + perms[: spec["n_orders"]]:
        seq = list(perm)
        for pos in sorted(rng.choice(len(seq) + 1, size=2, replace=False), reverse=True):
            seq.insert(int(pos), "custom:%d" % int(rng.integers(0, len(custom))))
        for step, name in enumerate(seq):
            if name.startswith("custom:"):
                custom[int(name.split(":")[1])]()
                continue
            fn, approved = ctors[name]
            dump = norm(fn().settings.model_dump())
            I.reach("defaults.compared_in_an_order")
            n += 1
            bad = {k: (dump.get(k), v) for k, v in norm(approved).items() if dump.get(k) != v}
            if bad:
                add("default-differs-from-approved-constant:order-dependent", "%s constructed after %s has %s (got, approved)" % (name, seq[:step], dict(list(bad.items())[:5])), order=seq[:step + 1])
                break
        keys.add("order|" + ">".join(seq))
    return n


def gen_cases(tier, seed):
    cases = [dict(kind="family", family=f) for f in ("current", "legacy", "billing", "hourly")]
    cases += [dict(kind="derived-settings")]
    cases += [dict(kind="defaults-order", batch=b, n_orders=10 if tier == "quick" else 40) for b in range(2 if tier == "quick" else 6)]
    fits = ["daily:current-nondev", "hourly:custom", "hourly:supp", "hourly:supp-explicit", "hourly:supp-object", "hourly:none-section", "hourly:none-values-in-a-section"] if tier == "quick" else \
        ["daily:current-nondev", "daily:legacy-dev", "daily:current-dev", "daily:billing-default", "hourly:custom", "hourly:solar-robust",
         "hourly:supp", "hourly:supp-explicit", "hourly:supp-object", "hourly:solar-supp-object", "hourly:none-section", "hourly:none-values-in-a-section"]
    cases += [dict(kind="fitted", which=w, batch=i) for i, w in enumerate(fits)]
    return cases


def run_case(spec):
    del VIOL[:]
    INSPECTED.clear()
    keys, hist = set(), {"constructions": {}}
    if spec["kind"] == "derived-settings":
        n = derived_settings(spec, keys, hist)
    elif spec["kind"] == "defaults-order":
        n = defaults_order(spec, keys, hist)
    elif spec["kind"] == "family":
        n = hourly_family(spec, keys, hist) if spec["family"] == "hourly" else daily_family(spec["family"], spec, keys, hist)
    else:
        n = fitted(spec, keys, hist)
    seen, kept = {}, []
    for v in VIOL:
        seen[v["mech"]] = seen.get(v["mech"], 0) + 1
        if seen[v["mech"]] <= 4:
            kept.append(dict(v))
    hist["validator_inspected"] = sorted(INSPECTED)[:80]
    return dict(viol=kept, reach=I.take_reach(), keys=sorted(keys), hist={"constructions": hist["constructions"]},
                events=n, inspected=sorted(INSPECTED))


def sample_view(c, r):
    return {"spec": c, "constructions": r.get("hist", {}).get("constructions"), "fields_inspected_by_validator": (r.get("inspected") or [])[:40]}


def finalize(cases, results, tier):
    return {"exhaustive": True, "exhaustive_over": "every field of the four settings trees (pydantic introspection) x the alternative / invalid value tables"}
