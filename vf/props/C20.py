"""C20 — baseline and reporting windows never leak across the intervention.

icontract post-conditions on the REAL get_baseline_data / get_reporting_data (rebound in every
module that imported them), driven with generated series, cut instants and option combinations.
The conditions *record* (and return True) so one call can yield several witnesses."""
import datetime as dt

import numpy as np
import pandas as pd

from vf import instrument as I
from vf.gen import rng_for

ID = "C20"
NEEDS_NUMBA = False
CASE_TIMEOUT = 900
TECHNIQUE = "runtime monitoring: icontract post-conditions on the real get_baseline_data/get_reporting_data (window bounds, no leak across the intervention, warnings vs an interval oracle) + the repository's own tests under the same contracts (thorough)"
LEVEL = "exploration"
RULE = ("each evaluation is one call of the real get_baseline_data/get_reporting_data on a generated hourly/daily/"
        "billing series (sorted, unique, tz-aware, 3..2000 rows, 5% NaN) with a cut instant inside/outside/exactly on/"
        "±1ns of a timestamp, max_days in {None,1..800}, every combination of the overshoot options; the contracts "
        "(no leak, lower/upper bound, contiguous slice, values, blanked last row, input untouched, gap warnings, "
        "dedicated error on empty selection) run on every call.  distinct_nontrivial counts distinct "
        "(function, series kind, cut class, max_days class, options, outcome class) tuples in which rows were actually cut away.")
ASSUMPTIONS = [
    "'requested limits' are the explicit start/end arguments; a start derived from max_days is not a request",
    "with ignore_billing_period_gap_for_day_count the max_days window is counted from the last (first) data timestamp inside the requested limit, as the docstring says",
    "nearest-boundary ties may resolve either way",
]
REQUIRED_REACH_THOROUGH = {"repo_tests.contract.baseline.post": 10, "repo_tests.contract.reporting.post": 10}
REQUIRED_REACH = {"contract.baseline.post": 200, "contract.reporting.post": 200, "outcome.dedicated_error": 5,
                  "clause.leak": 300, "clause.gap_warning_owed": 20, "clause.gap_owed_on_both_sides": 100}

VIOL = []


class ContractBroken(Exception):
    pass


def _digest(data):
    return I.digest(data)


def _names(warnings):
    return [w.qualified_name.split(".")[-1] for w in warnings]


def _td(days):
    return dt.timedelta(days=int(days))


def _ref_baseline(data, end, max_days, overshoot, n_over, ignore_gap, start=None):
    """Reference bounds from the statement.  Returns dict(lo_min, lo_max, end, empty_must, nonempty_must)."""
    idx = data.index
    before = idx[idx <= end]
    if len(before) == 0:
        return dict(empty=True)
    end_eff = end
    if ignore_gap and (n_over is None or end - _td(n_over) < before.max()):
        end_eff = before.max()
    if max_days is None and start is None:
        return dict(empty=False, lo_min=None, lo_max=None, before=before)
    L = end_eff - _td(max_days) if max_days is not None else start
    if overshoot:
        d = np.abs((before - L).total_seconds().to_numpy())
        cands = before[d == d.min()]
        return dict(empty=False, lo_min=cands.min(), lo_max=cands.max(), before=before)
    return dict(empty=False, lo_min=L, lo_max=L, before=before)


def _ref_reporting(data, start, max_days, overshoot, ignore_gap, end=None):
    idx = data.index
    after = idx[idx >= start]
    if len(after) == 0:
        return dict(empty=True)
    start_eff = after.min() if ignore_gap else start
    if max_days is None and end is None:
        return dict(empty=False, hi_min=None, hi_max=None, after=after)
    U = start_eff + _td(max_days) if max_days is not None else end
    if overshoot:
        d = np.abs((after - U).total_seconds().to_numpy())
        cands = after[d == d.min()]
        return dict(empty=False, hi_min=cands.min(), hi_max=cands.max(), after=after)
    return dict(empty=False, hi_min=U, hi_max=U, after=after)


def _values_of(obj):
    return obj.to_frame("v") if isinstance(obj, pd.Series) else obj


def _common_post(kind, data, result, OLD, add):
    out, warnings = result
    I.reach("contract.%s.post" % kind)
    if _digest(data) != OLD.d:
        add("input-mutated", "the input series/frame changed during the call")
    pos = data.index.get_indexer(out.index)
    I.reach("clause.contiguous")
    if len(pos) == 0 or (pos < 0).any() or (np.diff(pos) != 1).any():
        add("not-a-contiguous-slice", "result index is not a contiguous run of the input index")
        return out, warnings, False
    a = _values_of(out).iloc[:-1]
    b = _values_of(data).iloc[pos[:-1]]
    I.reach("clause.values")
    for c in a.columns:
        if not I.bits_equal(a[c].to_numpy(dtype=float), b[c].to_numpy(dtype=float)):
            add("values-changed", "a value other than the final row differs from the input (column %r)" % (c,))
    if not _values_of(out).iloc[-1].isna().all():
        add("last-row-not-blanked", "final row of the selection is not blanked")
    return out, warnings, True


def base_post(data, start, end, max_days, allow_billing_period_overshoot, n_days_billing_period_overshoot,
              ignore_billing_period_gap_for_day_count, result, OLD):
    def add(mech, what, **kw):
        VIOL.append(dict(mech="baseline:" + mech, what=what, **kw))
    out, warnings, ok = _common_post("baseline", data, result, OLD, add)
    names = _names(warnings)
    if end is not None:
        I.reach("clause.leak")
        if (out.index > end).any():
            add("leak-after-end", "baseline contains %d rows after the requested end" % int((out.index > end).sum()),
                first_bad=str(out.index[out.index > end][0]), end=str(end))
        ref = _ref_baseline(data, end, max_days, allow_billing_period_overshoot,
                            n_days_billing_period_overshoot, ignore_billing_period_gap_for_day_count, start)
        if ref.get("empty"):
            add("returned-on-empty-selection", "no input row at or before end, yet a selection was returned")
        elif ref["lo_min"] is not None:
            I.reach("clause.max_days")
            if (out.index < ref["lo_min"]).any():
                add("too-early", "baseline reaches further back than max_days (nearest boundary when overshoot is allowed)",
                    first=str(out.index[0]), bound=str(ref["lo_min"]))
        if end > data.index.max():
            I.reach("clause.gap_warning_owed")
            if "gap_at_baseline_end" not in names:
                n_over = n_days_billing_period_overshoot
                moved = ignore_billing_period_gap_for_day_count and (n_over is None or end - _td(n_over) < data.index.max())
                add("gap-end-warning-missing" + (":ignore_gap" if moved else ""),
                    "requested end lies after the data but no gap_at_baseline_end warning", end=str(end), data_end=str(data.index.max()))
    if start is not None:
        if start < data.index.min():
            I.reach("clause.gap_warning_owed")
            if "gap_at_baseline_start" not in names:
                add("gap-start-warning-missing" + (":overshoot" if allow_billing_period_overshoot else ""),
                    "requested start lies before the data but no gap_at_baseline_start warning", start=str(start), data_start=str(data.index.min()))
    return True


def rep_post(data, start, end, max_days, allow_billing_period_overshoot,
             ignore_billing_period_gap_for_day_count, result, OLD):
    def add(mech, what, **kw):
        VIOL.append(dict(mech="reporting:" + mech, what=what, **kw))
    out, warnings, ok = _common_post("reporting", data, result, OLD, add)
    names = _names(warnings)
    if start is not None:
        I.reach("clause.leak")
        if (out.index < start).any():
            add("leak-before-start", "reporting data contains %d rows before the requested start" % int((out.index < start).sum()),
                first_bad=str(out.index[0]), start=str(start))
        ref = _ref_reporting(data, start, max_days, allow_billing_period_overshoot, ignore_billing_period_gap_for_day_count, end)
        if ref.get("empty"):
            add("returned-on-empty-selection", "no input row at or after start, yet a selection was returned")
        elif ref["hi_max"] is not None:
            I.reach("clause.max_days")
            if (out.index > ref["hi_max"]).any():
                add("too-late", "reporting data reaches further than max_days (nearest boundary when overshoot is allowed)",
                    last=str(out.index[-1]), bound=str(ref["hi_max"]))
        if start < data.index.min():
            I.reach("clause.gap_warning_owed")
            if "gap_at_reporting_start" not in names:
                add("gap-start-warning-missing" + (":ignore_gap" if ignore_billing_period_gap_for_day_count else ""),
                    "requested start lies before the data but no gap_at_reporting_start warning", start=str(start), data_start=str(data.index.min()))
    if end is not None:
        if end > data.index.max():
            I.reach("clause.gap_warning_owed")
            if "gap_at_reporting_end" not in names:
                add("gap-end-warning-missing" + (":overshoot" if allow_billing_period_overshoot else ""),
                    "requested end lies after the data but no gap_at_reporting_end warning", end=str(end), data_end=str(data.index.max()))
    return True


def snap(data):
    return _digest(data)


_done = False


def setup_worker():
    global _done, T
    if _done:
        return
    import icontract
    import opendsm.eemeter.common.transform as T
    import opendsm.eemeter  # noqa: F401  (so aliases exist before rebinding)
    for name, post in (("get_baseline_data", base_post), ("get_reporting_data", rep_post)):
        orig = getattr(T, name)
        dec = icontract.snapshot(snap, name="d")(icontract.ensure(post, error=ContractBroken)(orig))
        setattr(T, name, dec)
        I.patch_everywhere(orig, dec)
    _done = True


# ------------------------------------------------------------------------------------------------
def _in_repeated_hour(ts, tz):
    """is the instant inside a local hour that occurs twice (DST fall-back)?  (same wall-clock time one hour earlier or later)"""
    t = pd.Timestamp(ts)
    t = t.tz_convert(tz)
    w = t.tz_localize(None)
    return any((t + pd.Timedelta(hours=h)).tz_convert(tz).tz_localize(None) == w for h in (-1, 1))


def _series(rng):
    kind = str(rng.choice(["h", "D", "bill", "bill2", "15min"], p=[0.25, 0.3, 0.25, 0.1, 0.1]))
    tz = str(rng.choice(["UTC", "America/Chicago", "Australia/Sydney", "Asia/Kolkata", "Europe/London"]))
    t0 = pd.Timestamp("2017-01-01") + pd.Timedelta(days=int(rng.integers(0, 300)))
    if kind in ("h", "15min"):
        t0 = (t0 + pd.Timedelta(hours=int(rng.integers(0, 24)))).tz_localize("UTC").tz_convert(tz)
        idx = pd.date_range(t0, periods=int(rng.integers(3, 2000)), freq="h" if kind == "h" else "15min")
    elif kind == "D":
        idx = pd.date_range(t0.tz_localize(tz), periods=int(rng.integers(3, 800)), freq="D")
    else:
        lo, hi = (25, 36) if kind == "bill" else (50, 71)
        steps = rng.integers(lo, hi, int(rng.integers(3, 30)))
        idx = pd.DatetimeIndex([(t0 + pd.Timedelta(days=int(x))).tz_localize(tz) for x in np.concatenate([[0], np.cumsum(steps)])])
    v = rng.uniform(1, 5, len(idx))
    v[rng.random(len(idx)) < 0.05] = np.nan
    if rng.random() < 0.05:
        v[:] = np.nan
    form = str(rng.choice(["frame", "series", "frame2"], p=[0.6, 0.25, 0.15]))
    if form == "series":
        data = pd.Series(v, index=idx, name="value")
    elif form == "frame2":
        data = pd.DataFrame({"value": v, "estimated": rng.random(len(idx))}, index=idx)
    else:
        data = pd.DataFrame({"value": v}, index=idx)
    return data, kind, form


def _cut(rng, data):
    lo, hi = data.index[0], data.index[-1]
    span = hi - lo
    r = rng.random()
    if r < 0.25:
        t = data.index[int(rng.integers(0, len(data)))]
        cls = "on-timestamp"
        q = rng.random()
        if q < 0.2:
            t, cls = t + pd.Timedelta(1, "ns"), "timestamp+1ns"
        elif q < 0.4:
            t, cls = t - pd.Timedelta(1, "ns"), "timestamp-1ns"
    elif r < 0.40:
        t, cls = lo - pd.Timedelta(days=float(rng.uniform(0, 500))), "before-data"
    elif r < 0.55:
        t, cls = hi + pd.Timedelta(days=float(rng.uniform(0, 500))), "after-data"
    else:
        t, cls = lo + span * float(rng.random()), "inside"
    t = pd.Timestamp(t)
    if cls in ("inside", "before-data", "after-data"):
        t = t.tz_convert("UTC").floor("s").tz_convert(data.index.tz)     # floor on the UTC clock: safe on DST days
    if rng.random() < 0.2:
        t = t.tz_convert("UTC")
    if rng.random() < 0.15:
        t = t.to_pydatetime() if t.nanosecond == 0 else t
    return t, cls


def gen_cases(tier, seed):
    n = 16 if tier == "quick" else 208
    cases = [dict(kind="batch", n=260, batch=b) for b in range(n)]
    if tier == "thorough":
        cases.append(dict(kind="repo-tests", batch=-1, timeout=3000))
    return cases


def run_case(spec):
    from opendsm.eemeter.common.exceptions import NoBaselineDataError, NoReportingDataError
    import opendsm.eemeter as em
    if spec["kind"] == "repo-tests":
        from vf.pytest_contracts import repo_tests_case
        res = repo_tests_case(ID, ["tests/test_transform.py", "tests/test_derivatives.py"])
        reach = {"repo_tests." + k: n for k, n in res["reach"].items() if k.startswith("contract.")}
        return dict(viol=[dict(v, where="repository's own tests under contracts") for v in res["viol"].get(ID, [])], reach=reach, keys=["repo-tests"],
                    hist={"outcome": {}, "cut": {}, "series": {}}, events=sum(reach.values()))
    rng = rng_for(spec["seed"], ID, spec["batch"])
    viol, keys, hist = [], set(), {"outcome": {}, "cut": {}, "series": {}}
    for it in range(spec["n"]):
        data, skind, form = _series(rng)
        cut, ccls = _cut(rng, data)
        md = None if rng.random() < 0.1 else int(rng.choice([1, 7, 30, 365, int(rng.integers(1, 800))]))
        opts = dict(allow_billing_period_overshoot=bool(rng.random() < 0.5),
                    ignore_billing_period_gap_for_day_count=bool(rng.random() < 0.5))
        base = bool(rng.random() < 0.5)
        other = None
        if md is None and rng.random() < 0.5:      # explicit opposite limit is only allowed with max_days=None
            other = cut + pd.Timedelta(days=float(rng.uniform(1, 400))) * (-1 if base else 1)
        if it % 16 == 5:
            # both limits explicit and the series strictly inside them: a gap is owed on BOTH sides (each warning on its own account)
            md = None
            lo_, hi_ = data.index[0], data.index[-1]
            before = (lo_ - pd.Timedelta(days=float(rng.uniform(0.5, 300)))).tz_convert("UTC").floor("s").tz_convert(data.index.tz)
            after = (hi_ + pd.Timedelta(days=float(rng.uniform(0.5, 300)))).tz_convert("UTC").floor("s").tz_convert(data.index.tz)
            cut, other, ccls = (after, before, "after-data") if base else (before, after, "before-data")
            I.reach("clause.gap_owed_on_both_sides")
        del VIOL[:]
        outcome = "ok"
        call = dict(fn="get_baseline_data" if base else "get_reporting_data", series=skind, form=form, rows=len(data),
                    first=str(data.index[0]), last=str(data.index[-1]), cut=str(cut), cut_class=ccls, max_days=md,
                    other_limit=None if other is None else str(other), **opts)
        fn = T.get_baseline_data if base else T.get_reporting_data
        try:
            if base:
                if rng.random() < 0.3:
                    opts["n_days_billing_period_overshoot"] = int(rng.integers(0, 40))
                    call["n_days_billing_period_overshoot"] = opts["n_days_billing_period_overshoot"]
                res, w = fn(data, start=other, end=cut, max_days=md, **opts)
            else:
                res, w = fn(data, start=cut, end=other, max_days=md, **opts)
            nrows = len(res)
        except (NoBaselineDataError, NoReportingDataError) as e:
            outcome = "dedicated_error"
            I.reach("outcome.dedicated_error")
            right = NoBaselineDataError if base else NoReportingDataError
            if not isinstance(e, right):
                VIOL.append(dict(mech="wrong-dedicated-error", what="raised %s" % type(e).__name__))
            # a dedicated error although the statement's window holds a usable row?
            if base:
                ref = _ref_baseline(data, cut, md, opts["allow_billing_period_overshoot"], opts.get("n_days_billing_period_overshoot"),
                                    opts["ignore_billing_period_gap_for_day_count"], other)
                if not ref.get("empty"):
                    lo = ref["lo_max"]
                    sel = data[(data.index <= cut) & ((data.index >= lo) if lo is not None else True)]
                    if not sel.dropna().empty:
                        VIOL.append(dict(mech="baseline:spurious-empty-error", what="NoBaselineDataError although %d usable rows lie in the window" % len(sel.dropna())))
            else:
                ref = _ref_reporting(data, cut, md, opts["allow_billing_period_overshoot"], opts["ignore_billing_period_gap_for_day_count"], other)
                if not ref.get("empty"):
                    hi = ref["hi_min"]
                    sel = data[(data.index >= cut) & ((data.index <= hi) if hi is not None else True)]
                    if not sel.dropna().empty:
                        VIOL.append(dict(mech="reporting:spurious-empty-error", what="NoReportingDataError although %d usable rows lie in the window" % len(sel.dropna())))
            nrows = 0
        except ContractBroken:
            raise
        except Exception as e:  # anything else on a well-formed call is a violation of the last clause
            outcome = "EXC:" + type(e).__name__
            nrows = 0
            sub = "overshoot" if opts["allow_billing_period_overshoot"] else "no-overshoot"
            sub += ":max_days=None" if md is None else ""
            # the limits the function looks up: the explicit ones and the one it derives from max_days (limit -/+ max_days x 24 h)
            looked_up = [x for x in (cut, other) if x is not None]
            if md is not None:
                looked_up += [pd.Timestamp(cut) - pd.Timedelta(days=md) if base else pd.Timestamp(cut) + pd.Timedelta(days=md)]
            if isinstance(e, KeyError) and "non-monotonic index" in str(e) and any(_in_repeated_hour(x, data.index.tz) for x in looked_up):
                sub = "limit-inside-the-repeated-hour-of-a-dst-fall-back"
            VIOL.append(dict(mech="%s:unexpected-%s:%s" % ("baseline" if base else "reporting", type(e).__name__, sub),
                             what="raised %s: %s instead of returning a selection or the dedicated error" % (type(e).__name__, str(e)[:120])))
        for v in VIOL:
            v["call"] = call
            viol.append(dict(v))
        hist["outcome"][outcome] = hist["outcome"].get(outcome, 0) + 1
        hist["cut"][ccls] = hist["cut"].get(ccls, 0) + 1
        hist["series"][skind + "/" + form] = hist["series"].get(skind + "/" + form, 0) + 1
        if outcome != "ok" or nrows < len(data):
            keys.add("|".join(map(str, (call["fn"], skind, ccls, "None" if md is None else ("<30" if md < 30 else "<366" if md < 366 else "big"),
                                        opts["allow_billing_period_overshoot"], opts["ignore_billing_period_gap_for_day_count"], outcome))))
    # keep at most 3 witnesses per mechanism per batch
    seen, kept = {}, []
    for v in viol:
        seen[v["mech"]] = seen.get(v["mech"], 0) + 1
        if seen[v["mech"]] <= 3:
            kept.append(v)
    return dict(viol=kept, reach=I.take_reach(), keys=sorted(keys), hist=hist, events=spec["n"])


def sample_view(c, r):
    return {"spec": c, "what": "one batch of generated calls", "outcomes": r["hist"]["outcome"], "cut_classes": r["hist"]["cut"]}
