"""C16 — reported fit statistics are the true statistics of the model predictions.

Monitors: (a) every BaselineMetrics object constructed anywhere (directly by the workload or inside
HourlyModel.fit) is checked field by field against a plain-numpy formula sheet; (b) icontract
post-condition on the real _safe_divide; (c) ReportingMetrics / CalTRACK ModelMetrics against the
formulas; (d) stored hourly baseline metrics vs metrics of predict(baseline) on non-interpolated
hours, and the poor-fit disqualification rule with thresholds placed just above/below the measured
values; (e) daily/billing model.error vs statistics of predict(baseline)."""
import copy
import math

import numpy as np
import pandas as pd

from vf import instrument as I
from vf.gen import rng_for, synth_daily, synth_hourly, billing_reads
from vf.oracle import metrics as O

ID = "C16"
TECHNIQUE = 'runtime monitoring: reference-model monitor: textbook statistics recomputed independently from the observed/predicted pairs and compared with every field the real metrics classes / models report; contract on _safe_divide; gate judged with thresholds straddling the measured values'
LEVEL = "exploration"
CASE_TIMEOUT = 900
RULE = ("direct cases: generated observed/predicted series (length 2..20000; NaN/inf rows; zero-mean, zero-spread, negative, "
        "integer-typed, perfectly predicted, constant-residual edge cases; parameter counts 1..n+5) through the real "
        "BaselineMetrics/ReportingMetrics/ModelMetrics, every dumped field compared with numpy formulas; fit cases: hourly "
        "and daily/billing fits whose stored metrics are compared with metrics of predict(baseline) and whose poor-fit "
        "disqualification is compared with the threshold rule at thresholds straddling the measured value.  A case is "
        "non-trivial when at least 2 finite pairs remain; distinct = distinct (edge class, length class, has-nonfinite, p class) "
        "for direct cases and distinct fitted models for fit cases.")
ASSUMPTIONS = ["the hourly gate cases with one undefined metric are counted (monitor.hourly_gate_undefined_metric*) but not required: whether a generated meter leaves a metric undefined depends on the draw", 
    "lag-1 autocorrelation is the Pearson correlation of consecutive residuals; n' is judged only when it is finite and |rho|<1",
    "sign convention of residual/bias is the one the dump itself documents (residuals.sum == observed.sum - predicted.sum)",
    "quantiles use linear interpolation; daily PNRMSE may use the 25-75 or the 5-95 percentile range",
    "t statistic may use ddof or ddof-1 degrees of freedom (statement does not say)",
]
REQUIRED_REACH = {"monitor.baseline_metrics": 300, "contract.safe_divide": 1000, "monitor.reporting_metrics": 50,
                  "monitor.caltrack_metrics": 50, "monitor.hourly_stored_vs_predict": 3, "monitor.hourly_gate": 6,
                  "monitor.daily_error": 4, "monitor.daily_gate": 4, "ratio.undefined_expected": 20,   "data.hourly_weather_gaps_away_from_meter_gaps": 4, "monitor.reporting_metrics_local_zone_index": 20, "monitor.daily_model_object_reused": 2, "edge.level_huge_relative_to_spread": 20}

VIOL = []
CTX = {"where": "direct"}


class ContractBroken(Exception):
    pass


def add(mech, what, **kw):
    VIOL.append(dict(mech=mech, what=what, where=CTX.get("where"), **kw))


RATIO_FIELDS = ["cvrmse", "cvrmse_adj", "cvrmse_autocorr_adj", "pnrmse", "pnrmse_adj", "pnrmse_autocorr_adj",
                "nmae", "pnmae", "nmbe", "pnmbe"]


def check_baseline_dump(d, obs, pred, p, tag):
    """d = BaselineMetrics(...).model_dump(); obs/pred the arrays it was given."""
    I.reach("monitor.baseline_metrics")
    ref = O.baseline(obs, pred, p)
    if ref["n"] == 0:
        return ref
    bad = []
    o = np.asarray(obs, float)
    fin = o[np.isfinite(o) & np.isfinite(np.asarray(pred, float))]
    sc1 = float(np.abs(fin).max()) if len(fin) else 1.0
    pf = np.asarray(pred, float)
    pf = pf[np.isfinite(pf) & np.isfinite(np.asarray(obs, float))]
    sc1 = max(sc1, float(np.abs(pf).max()) if len(pf) else 0.0, 1e-12)
    n = ref["n"]
    if int(d["n"]) != n:
        bad.append(("n", d["n"], n))
    for c in ("observed", "predicted", "residuals"):
        for f, scale in (("sum", sc1 * n), ("mean", sc1), ("variance", sc1 * sc1), ("sum_squared", sc1 * sc1 * n),
                         ("median", sc1), ("iqr", sc1), ("std", sc1)):
            if not O.close(d[c][f], ref[c][f], scale):
                bad.append(("%s.%s" % (c, f), d[c][f], ref[c][f]))
    for f, scale in (("sse", sc1 * sc1 * n), ("mse", sc1 * sc1), ("rmse", sc1), ("mae", sc1), ("mbe", sc1), ("rmse_adj", sc1), ("ddof", 1)):
        if not O.close(d[f], ref[f], scale):
            bad.append((f, d[f], ref[f]))
    # identities the statement names
    if not O.close(d["rmse"] ** 2 * d["n"], d["sse"], sc1 * sc1 * n, rel=1e-9):
        bad.append(("identity rmse^2*n==sse", d["rmse"] ** 2 * d["n"], d["sse"]))
    if not O.close(d["residuals"]["sum"], d["observed"]["sum"] - d["predicted"]["sum"], sc1 * n, rel=1e-9):
        bad.append(("identity residuals.sum==observed.sum-predicted.sum", d["residuals"]["sum"], d["observed"]["sum"] - d["predicted"]["sum"]))
    if ref["n_prime"] is not None and abs(ref["rho"]) < 1 - 1e-9:
        I.reach("field.n_prime")
        if not O.close(d["n_prime"], ref["n_prime"], n, rel=1e-7):
            bad.append(("n_prime", d["n_prime"], ref["n_prime"]))
        elif abs(ref["n_prime"] - p - 1) > 1e-6:
            for f in ("ddof_autocorr", "rmse_autocorr_adj"):
                if not O.close(d[f], ref[f], sc1 if f != "ddof_autocorr" else n, rel=1e-7):
                    bad.append((f, d[f], ref[f]))
    if ref.get("r_squared") is not None and ref["observed"]["variance"] > 1e-18 * sc1 * sc1 and ref["predicted"]["variance"] > 1e-18 * sc1 * sc1:
        I.reach("field.r_squared")
        # a level 10^6..10^9 times the spread costs the squared correlation about log10(level/spread) digits whatever the algorithm: 1e-5 there
        if not O.close(d["r_squared"], ref["r_squared"], 1.0, rel=1e-5 if (tag or {}).get("edge") == "large_offset" else 1e-7):
            bad.append(("r_squared", d["r_squared"], ref["r_squared"]))
        else:
            den = ref["ddof"] - 1
            if den > O.MIN_DEN:
                if not O.close(d["r_squared_adj"], ref["r_squared_adj"], 1.0, rel=1e-6 * max(1.0, (n - 1) / den)):
                    bad.append(("r_squared_adj", d["r_squared_adj"], ref["r_squared_adj"]))
            else:
                I.reach("ratio.undefined_expected")
                if d["r_squared_adj"] is not None and math.isfinite(float(d["r_squared_adj"])):
                    add("ratio-defined-on-unsafe-denominator", "r_squared_adj reported as a number although ddof-1 <= 1e-3",
                        field="r_squared_adj", value=d["r_squared_adj"], denominator=den, tag=tag)
    # ratios
    for f in RATIO_FIELDS:
        den = ref["den_mean"] if (f.startswith("cv") or f in ("nmae", "nmbe")) else ref["den_iqr"]
        if abs(den - O.MIN_DEN) < 1e-9:
            continue                                        # exactly on the guard: not judged
        if f.endswith("autocorr_adj") and (ref["n_prime"] is None or abs(ref["rho"]) >= 1 - 1e-9 or abs(ref["n_prime"] - p - 1) <= 1e-6):
            continue
        exp = ref.get(f)
        got = d[f]
        if den <= O.MIN_DEN:
            I.reach("ratio.undefined_expected")
            if got is not None and not (isinstance(got, float) and math.isnan(got)):
                kind = "zero" if abs(den) <= O.MIN_DEN else "negative"
                add("ratio-defined-on-unsafe-denominator", "%s reported as %r although its denominator is %r (<= 1e-3)" % (f, got, den),
                    field=f, value=got, denominator=den, denominator_kind=kind, tag=tag)
        else:
            I.reach("ratio.defined_expected")
            if got is None:
                bad.append((f, None, exp))
            elif not O.close(got, exp, 0.0, rel=1e-7):
                bad.append((f, got, exp))
    if bad:
        add("baseline-metric-differs-from-formula", "BaselineMetrics fields differ from the formulas: %s" % (bad[:6],),
            fields=[b[0] for b in bad], tag=tag, n=n, p=p)
    return ref


def safe_divide_post(numerator, denominator, min_denominator, result):
    I.reach("contract.safe_divide")
    if abs(denominator - min_denominator) < 1e-12:
        return True
    if denominator <= min_denominator:
        if result is not None and not (isinstance(result, float) and math.isnan(result)):
            I.reach("contract.safe_divide.unsafe_but_number")   # witness is reported by the field monitor
    else:
        if result is None:
            add("safe-divide-undefined-on-safe-denominator", "_safe_divide returned None for denominator %r" % (denominator,))
    return True


_done = False


def setup_worker():
    global _done
    if _done:
        return
    import icontract
    import opendsm.common.metrics as M
    import opendsm.eemeter  # noqa
    orig = M._safe_divide
    dec = icontract.ensure(safe_divide_post, error=ContractBroken)(orig)
    M._safe_divide = dec
    I.patch_everywhere(orig, dec)
    _done = True


# ---------------------------------------------------------------------------------------------
def _series(rng):
    edge = str(rng.choice(["normal", "zero_mean", "tiny_mean", "zero_spread", "negative", "int", "perfect", "const_resid",
                           "near_zero_iqr", "short", "large_offset"], p=[0.26, 0.08, 0.07, 0.08, 0.1, 0.07, 0.07, 0.06, 0.07, 0.08, 0.06]))
    n = int(np.exp(rng.uniform(np.log(2), np.log(20000)))) if edge != "short" else int(rng.integers(2, 6))
    n = max(n, 2)
    base = rng.uniform(0.5, 500)
    o = base * (1 + 0.3 * np.sin(np.arange(n) / rng.uniform(1, 50))) + rng.normal(0, 0.1 * base, n)
    if edge == "zero_mean":
        o = o - o.mean()
    elif edge == "tiny_mean":
        o = o - o.mean() + rng.uniform(-2e-3, 3e-3)
    elif edge == "zero_spread":
        o = np.full(n, float(rng.choice([0.0, 1.0, base])))
    elif edge == "negative":
        o = -np.abs(o) if rng.random() < 0.5 else o - 1.5 * base
    elif edge == "large_offset":
        # a level that is huge relative to the spread (a cumulative register read as usage, a sub-meter on a big constant load, a net-metered
        # site): statistics that are differences of large moments lose every digit unless they are computed from centred values
        base = float(rng.uniform(2, 6))
        o = float(rng.choice([5e6, 2.5e8, -1e9, 3e7])) + base * np.sin(np.arange(n) / rng.uniform(1, 50)) + rng.normal(0, 0.3 * base, n)
        I.reach("edge.level_huge_relative_to_spread")
    elif edge == "near_zero_iqr":
        o = np.full(n, base)
        k = max(1, n // 10)
        o[:k] += rng.normal(0, base, k)
    pnoise = rng.uniform(0.01, 0.5)
    q = o + rng.normal(0, pnoise * base, n) + rng.uniform(-0.1, 0.1) * base
    if rng.random() < 0.5 and n > 5:            # autocorrelated residuals
        e = np.zeros(n)
        w = rng.normal(0, pnoise * base, n)
        a = rng.uniform(-0.9, 0.95)
        for i in range(n):
            e[i] = a * (e[i - 1] if i else 0) + w[i]
        q = o + e
    if edge == "perfect":
        q = o.copy()
    elif edge == "const_resid":
        q = o - 1.25
    if edge == "int":
        o = np.round(o).astype("int64")
        q = np.round(q).astype("int64") if rng.random() < 0.5 else q
    nonfinite = False
    o = np.asarray(o)
    q = np.asarray(q)
    if edge != "int" and rng.random() < 0.4 and n > 3:
        nonfinite = True
        o = o.astype(float)
        q = q.astype(float)
        k = rng.choice(n, size=max(1, int(0.1 * n)), replace=False)
        o[k[: len(k) // 2 + 1]] = rng.choice([np.nan, np.inf, -np.inf], len(k[: len(k) // 2 + 1]))
        q[k[len(k) // 2:]] = rng.choice([np.nan, np.inf, -np.inf], len(k[len(k) // 2:]))
    pcls = str(rng.choice(["1", "small", "n", "n+"]))
    p = {"1": 1, "small": int(rng.integers(1, 8)), "n": max(1, n - int(rng.integers(0, 3))), "n+": n + int(rng.integers(1, 6))}[pcls]
    return o, q, p, edge, nonfinite, pcls


def _direct(spec, rng, keys, hist):
    from opendsm.common.metrics import BaselineMetrics, ReportingMetrics
    from opendsm.eemeter.models.hourly_caltrack.metrics import ModelMetrics
    from scipy.stats import t as tdist
    for it in range(spec["n"]):
        o, q, p, edge, nonfinite, pcls = _series(rng)
        n = len(o)
        freq = str(rng.choice(["h", "D"]))
        idx = pd.date_range("2019-01-01", periods=n, freq=freq, tz="UTC")
        df = pd.DataFrame({"observed": o, "predicted": q}, index=idx)
        if rng.random() < 0.3:
            df["extra"] = 1.0
        tag = dict(edge=edge, n=n, p=p, nonfinite=nonfinite, batch=spec["batch"], it=it)
        CTX["where"] = "direct"
        bm = BaselineMetrics(df=df, num_model_params=p)
        d = bm.model_dump()
        ref = check_baseline_dump(d, o, q, p, tag)
        hist["edge"][edge] = hist["edge"].get(edge, 0) + 1
        if ref["n"] >= 2:
            keys.add("direct|%s|%s|%s|%s" % (edge, "S" if n < 30 else "M" if n < 1000 else "L", nonfinite, pcls))
        # ---- ReportingMetrics on a second pair of series --------------------------------------
        if ref["n"] >= 2 and ref.get("cvrmse_autocorr_adj") is not None and d.get("cvrmse_autocorr_adj") is not None and it % 3 == 0:
            m = int(rng.integers(2, 800))
            # reporting rows stamped in the meter's own zone (east and west of UTC, naive, UTC), starting on a month boundary or inside a month:
            # the number of calendar months the rows touch is a LOCAL calendar notion
            rtz = [None, "UTC", "Europe/Berlin", "Australia/Sydney", "Asia/Tokyo", "America/Los_Angeles", "Asia/Kolkata"][int(rng.integers(0, 7))]
            ridx = pd.date_range(str(rng.choice(["2020-01-01", "2020-02-01", "2021-03-01", "2020-06-15", "2021-11-01"])), periods=m, freq=freq, tz=rtz)
            if rtz not in (None, "UTC"):
                I.reach("monitor.reporting_metrics_local_zone_index")
            ro = rng.uniform(0.5, 2, m) * abs(ref["observed"]["mean"])
            rp = ro * rng.uniform(0.8, 1.3, m)
            if rng.random() < 0.4:
                ro[rng.choice(m, size=max(1, m // 8), replace=False)] = np.nan
            which = str(rng.choice(["hourly", "daily", "billing"]))
            conf = float(rng.choice([0.9, 0.8, 0.95]))
            tail = int(rng.choice([1, 2]))
            rm = ReportingMetrics(baseline_metrics=bm, reporting_df=pd.DataFrame({"observed": ro, "predicted": rp}, index=ridx),
                                  data_frequency=which, confidence_level=conf, t_tail=tail)
            I.reach("monitor.reporting_metrics")
            ok = np.isfinite(ro) & np.isfinite(rp)
            osum, psum, mm = float(ro[ok].sum()), float(rp[ok].sum()), int(ok.sum())
            try:
                rd = rm.model_dump()
            except ZeroDivisionError as e:
                # n' = n(1-rho)/(1+rho) is exactly 0 when the baseline residuals are perfectly autocorrelated (rho = 1, e.g. 3 collinear residuals)
                if float(d["n_prime"]) == 0.0:
                    add("reporting-metrics-raise-when-n_prime-is-zero", "ReportingMetrics.model_dump() raised ZeroDivisionError: baseline n_prime = 0 (rho = %r)" % ref.get("rho"), tag=tag)
                    continue
                raise
            bad = []
            sc = max(abs(osum), abs(psum), 1e-12)
            if int(rd["n"]) != mm:
                bad.append(("n", rd["n"], mm))
            if not O.close(rd["observed_sum"], osum, sc):
                bad.append(("observed_sum", rd["observed_sum"], osum))
            if not O.close(rd["predicted_sum"], psum, sc):
                bad.append(("predicted_sum", rd["predicted_sum"], psum))
            if not O.close(rd["savings"], psum - osum, sc):
                bad.append(("savings", rd["savings"], psum - osum))
            # degrees of freedom: ddof or ddof-1 (statement does not say); with 0 degrees the statistic is undefined
            ts = [float(tdist.ppf(1 - (1 - conf) / tail, df_)) if df_ >= 1 else float("nan") for df_ in (d["ddof"], d["ddof"] - 1)]
            if not any(O.close(rd["t_stat"], t_, 1.0, rel=1e-9) for t_ in ts):
                bad.append(("t_stat", rd["t_stat"], ts))
            elif math.isfinite(float(rd["t_stat"])) and mm >= 1 and d["n_prime"] > 0:
                npr, nn = d["n_prime"], d["n"]
                base_unc = psum * rd["t_stat"] * d["cvrmse_autocorr_adj"] * math.sqrt(nn / (mm * npr) * (1 + 2 / npr))
                if which == "hourly":
                    f = 1.26
                else:
                    M_ = len(set(ridx[ok].month))
                    c = [-0.00024, 0.03535, 1.00286] if which == "daily" else [-0.00022, 0.03306, 0.94054]
                    f = c[0] * M_ * M_ + c[1] * M_ + c[2]
                if not O.close(rd["total_savings_uncertainty"], f * base_unc, abs(f * base_unc), rel=1e-9):
                    bad.append(("total_savings_uncertainty", rd["total_savings_uncertainty"], f * base_unc))
                if abs(psum - osum) > 1e-9 * sc and not O.close(rd["fsu"], rd["total_savings_uncertainty"] / (psum - osum), 0, rel=1e-9):
                    bad.append(("fsu", rd["fsu"], None))
            if bad:
                add("reporting-metric-differs-from-formula", "ReportingMetrics fields differ from the formulas: %s" % (bad[:5],), tag=tag)
        # ---- CalTRACK ModelMetrics --------------------------------------------------------------
        if it % 4 == 1 and edge not in ("int",) and ref["n"] >= 3:
            so = pd.Series(np.where(np.isfinite(o.astype(float)), o.astype(float), np.nan), index=idx)
            sp = pd.Series(np.where(np.isfinite(q.astype(float)), q.astype(float), np.nan), index=idx)
            pp = int(min(p, max(0, ref["n"] - 2)))
            mmx = ModelMetrics(so, sp, num_parameters=pp)
            I.reach("monitor.caltrack_metrics")
            oo, qq = so.to_numpy(), sp.to_numpy()
            ok = np.isfinite(oo) & np.isfinite(qq)
            r = qq[ok] - oo[ok]
            nn = int(ok.sum())
            sc = max(float(np.abs(oo[ok]).max()), float(np.abs(qq[ok]).max()), 1e-12)
            bad = []
            if mmx.merged_length != nn:
                bad.append(("merged_length", mmx.merged_length, nn))
            rmse = math.sqrt(float((r * r).sum()) / nn)
            if not O.close(mmx.rmse, rmse, sc):
                bad.append(("rmse", mmx.rmse, rmse))
            if nn > pp:
                ra = math.sqrt(float((r * r).sum()) / (nn - pp))
                if not O.close(mmx.rmse_adj, ra, sc):
                    bad.append(("rmse_adj", mmx.rmse_adj, ra))
            am = float(np.abs(oo[ok]).mean())
            if am > O.MIN_DEN and not O.close(mmx.cvrmse, rmse / am, 0, rel=1e-9):
                bad.append(("cvrmse", mmx.cvrmse, rmse / am))
            c = O.pearson(qq[ok], oo[ok])
            if math.isfinite(c) and np.var(oo[ok]) > 1e-18 * sc * sc and np.var(qq[ok]) > 1e-18 * sc * sc and not O.close(mmx.r_squared, c * c, 1.0, rel=1e-7):
                bad.append(("r_squared", mmx.r_squared, c * c))
            s_o = float(oo[ok].sum())
            if abs(s_o) > O.MIN_DEN * nn:
                if not O.close(mmx.nmbe, float(r.sum()) / s_o, 0, rel=1e-7) and abs(float(r.sum())) > 1e-9 * sc * nn:
                    bad.append(("nmbe", mmx.nmbe, float(r.sum()) / s_o))
                if not O.close(mmx.nmae, float(np.abs(r).sum()) / s_o, 0, rel=1e-9):
                    bad.append(("nmae", mmx.nmae, float(np.abs(r).sum()) / s_o))
            if bad:
                add("caltrack-metric-differs-from-formula", "ModelMetrics fields differ from the formulas: %s" % (bad[:5],), tag=tag)


# ---------------------------------------------------------------------------------------------
def _hourly_fit(spec, rng, keys, hist):
    import opendsm.eemeter as em
    CTX["where"] = "hourly-fit"
    tz = spec["tz"]
    noise = spec["noise"]
    df = synth_hourly(tz=tz, start="2018-01-01", days=365, seed=rng, ghi=spec["ghi"], noise=noise)
    if spec.get("pure_noise"):
        df["observed"] = np.abs(rng.normal(1, 1.5, len(df))) + 0.01
    gaps = rng.choice(len(df), size=int(0.02 * len(df)), replace=False)
    df.iloc[gaps, df.columns.get_loc("observed")] = np.nan     # -> interpolated hours
    # weather gaps at OTHER hours than the meter gaps (a real reading with an interpolated temperature is an interpolated hour too)
    others = np.setdiff1d(np.arange(len(df)), gaps)
    for col in [c for c in ("temperature", "ghi") if c in df.columns]:
        wg = rng.choice(others, size=int(0.01 * len(df)), replace=False)
        df.iloc[wg, df.columns.get_loc(col)] = np.nan
    I.reach("data.hourly_weather_gaps_away_from_meter_gaps")
    if spec.get("net_metered_zero_mean"):
        # mean usage of the hours that count (not interpolated) ~ 0: CVRMSE is undefined, PNRMSE is not
        df["observed"] = df["observed"] - float(df["observed"].mean(skipna=True))
    if spec.get("sparse_zero_iqr"):
        # a sparse gas meter: exactly zero in ~80% of the hours -> the inter-quartile range is 0, PNRMSE is undefined, CVRMSE is not
        o = df["observed"].to_numpy().copy()
        o[rng.random(len(o)) < 0.8] = 0.0
        df["observed"] = o
    bd = em.HourlyBaselineData(df, is_electricity_data=not spec.get("sparse_zero_iqr"))
    captured = []
    import opendsm.common.metrics as M
    orig_init = M.BaselineMetrics.__init__

    def model_for(settings):
        # a private copy of the data object per fit: a fit may append to the data object's lists (C02's business)
        return em.HourlyModel(settings=settings).fit(copy.deepcopy(bd), ignore_disqualification=True)
    m = model_for(dict(seed=int(spec["mseed"])))
    pred = m.predict(bd, ignore_disqualification=True)
    flags = [c for c in pred.columns if c.startswith("interpolated_")]
    keep = ~pred[flags].any(axis=1)
    sub = pred.loc[keep]
    d = m.baseline_metrics.model_dump()
    coefs = np.asarray(m.to_dict()["coefficients"], float)
    inter = np.asarray(m.to_dict()["intercept"], float)
    p_true = int(np.count_nonzero(coefs) + np.count_nonzero(inter))
    I.reach("monitor.hourly_stored_vs_predict")
    if int(d["num_model_params"]) != p_true:
        add("hourly-param-count", "stored num_model_params %r != non-zero coefficients %r" % (d["num_model_params"], p_true))
    ref = check_baseline_dump(d, sub["observed"].to_numpy(), sub["predicted"].to_numpy(), p_true,
                              dict(kind="hourly stored metrics vs predict(baseline) on non-interpolated hours", tz=tz, n_interp=int((~keep).sum())))
    keys.add("hourly|%s|%s|%s|%s" % (tz, spec["ghi"], noise, spec.get("pure_noise")))
    hist["hourly_interpolated_hours"][str(int((~keep).sum()) > 0)] = 1
    # ---- gate: thresholds straddling the measured values --------------------------------------
    cv, pn = ref.get("cvrmse_adj"), ref.get("pnrmse_adj")
    if cv is None or pn is None:
        # an undefined ratio cannot meet its threshold; the model is disqualified exactly when it misses BOTH
        I.reach("monitor.hourly_gate_undefined_metric")
        thr_cv, thr_pn = m.settings.cvrmse_threshold, m.settings.pnrmse_threshold
        expect = (cv is None or cv >= thr_cv) and (pn is None or pn >= thr_pn)
        poor = [w for w in m.disqualification if "model_fit" in w.qualified_name]
        hist["hourly_gate"]["undefined-metric expect_dq=%s" % expect] = 1
        if bool(poor) != expect:
            add("hourly-poor-fit-gate:undefined-metric", "poor-fit disqualification %s but cvrmse_adj=%r (thr %r) pnrmse_adj=%r (thr %r)" % (bool(poor), cv, thr_cv, pn, thr_pn))
        # thresholds straddling the metric that IS defined: the undefined one can never rescue the model
        which, val = ("cvrmse_threshold", cv) if cv is not None else ("pnrmse_threshold", pn)
        if val is not None and val > 0:
            for f in (1.001, 0.999):
                m2 = model_for({"seed": int(spec["mseed"]), which: val * f})
                d2 = m2.baseline_metrics.model_dump()
                got_val = d2["cvrmse_adj"] if cv is not None else d2["pnrmse_adj"]
                other = d2["pnrmse_adj"] if cv is not None else d2["cvrmse_adj"]
                if other is not None or got_val is None or not O.close(got_val, val, 0, 1e-9):
                    add("hourly-refit-not-reproducible", "same data+seed refit gave other metrics")
                    continue
                I.reach("monitor.hourly_gate_undefined_metric_straddled")
                poor2 = [w for w in m2.disqualification if "model_fit" in w.qualified_name]
                expect2 = val >= val * f
                hist["hourly_gate"]["undefined-metric straddled expect_dq=%s" % expect2] = 1
                if bool(poor2) != expect2:
                    add("hourly-poor-fit-gate:undefined-metric", "poor-fit disqualification %s but the only defined ratio %s=%.6g has threshold %.6g (the other ratio is undefined)" % (
                        bool(poor2), which.replace("_threshold", "_adj"), val, val * f))
        return
    for fcv, fpn in ((1.001, 1.001), (0.999, 0.999), (1.001, 0.999), (0.999, 1.001)):
        st = dict(seed=int(spec["mseed"]), cvrmse_threshold=cv * fcv, pnrmse_threshold=pn * fpn)
        m2 = model_for(st)
        d2 = m2.baseline_metrics.model_dump()
        if not (O.close(d2["cvrmse_adj"], cv, 0, 1e-9) and O.close(d2["pnrmse_adj"], pn, 0, 1e-9)):
            add("hourly-refit-not-reproducible", "same data+seed refit gave other metrics")
            continue
        I.reach("monitor.hourly_gate")
        names = [w.qualified_name for w in m2.disqualification]
        poor = [x for x in names if "model_fit" in x]
        expect = (cv >= cv * fcv) and (pn >= pn * fpn)      # misses both thresholds
        hist["hourly_gate"]["expect_dq=%s" % expect] = hist["hourly_gate"].get("expect_dq=%s" % expect, 0) + 1
        if bool(poor) != expect:
            add("hourly-poor-fit-gate", "poor-fit disqualification %s but cvrmse_adj=%.6g (thr %.6g) pnrmse_adj=%.6g (thr %.6g)" % (
                bool(poor), cv, cv * fcv, pn, pn * fpn))


def _daily_fit(spec, rng, keys, hist):
    import opendsm.eemeter as em
    CTX["where"] = "daily-fit"
    fam = spec["family"]
    noise = spec["noise"]
    if fam == "billing":
        tdf, bdf, params = billing_reads(rng, tz=spec["tz"], n_periods=13, noise=noise)
        df = tdf.join(bdf)
        bd = em.BillingBaselineData(df, is_electricity_data=True)
        mk = lambda **kw: em.BillingModel(**kw)
    else:
        df = synth_daily(tz=spec["tz"], n=365, seed=rng, kind=spec["kind"], noise=noise, weekend=spec.get("weekend", 0.0))
        if spec.get("pure_noise"):
            df["observed"] = np.abs(rng.normal(10, 12, len(df))) + 0.1
        bd = em.DailyBaselineData(df, is_electricity_data=True)
        mk = (lambda **kw: em.DailyModel(model="legacy", **kw)) if fam == "legacy" else (lambda **kw: em.DailyModel(**kw))
    m = mk()
    if spec.get("reused_model_object"):
        # the model object fitted another (clean, well-behaved) meter first: the statistics it reports must be those of the latest fit
        if fam == "billing":
            t2, b2, _ = billing_reads(rng, tz=spec["tz"], n_periods=13, noise=0.01)
            other = em.BillingBaselineData(t2.join(b2), is_electricity_data=True)
        else:
            other = em.DailyBaselineData(synth_daily(tz=spec["tz"], n=365, seed=rng, kind="both", noise=0.01), is_electricity_data=True)
        m.fit(other, ignore_disqualification=True)
        I.reach("monitor.daily_model_object_reused")
    m = m.fit(copy.deepcopy(bd), ignore_disqualification=True)
    pred = m.predict(bd, ignore_disqualification=True)
    ok = np.isfinite(pred["observed"].to_numpy(float)) & np.isfinite(pred["predicted"].to_numpy(float))
    o, q = pred["observed"].to_numpy(float)[ok], pred["predicted"].to_numpy(float)[ok]
    r = o - q
    rmse = math.sqrt(float((r * r).mean()))
    mae = float(np.abs(r).mean())
    cv = rmse / float(o.mean())
    pn_a = rmse / (O.quantile(o, 0.95) - O.quantile(o, 0.05))
    pn_b = rmse / (O.quantile(o, 0.75) - O.quantile(o, 0.25))
    err = m.error
    I.reach("monitor.daily_error")
    keys.add("daily|%s|%s|%s|%s|%s" % (fam, spec["tz"], spec.get("kind"), noise, spec.get("pure_noise")))
    # selection-stage residuals (what _get_error_metrics reads) — used only to attribute a mismatch
    comp = [m.fit_components[c] for c in m.best_combination.split("__")]
    rs = np.hstack([c.resid for c in comp])
    os_ = np.hstack([c.obs for c in comp])
    sel = dict(RMSE=math.sqrt(float((rs ** 2).mean())), MAE=float(np.abs(rs).mean()))
    sel["CVRMSE"] = sel["RMSE"] / float(os_.mean())
    refit = m.settings.alpha_final_type is not None
    hist["daily_final_refit"][str(refit)] = hist["daily_final_refit"].get(str(refit), 0) + 1
    for name, true in (("RMSE", rmse), ("MAE", mae), ("CVRMSE", cv)):
        if not O.close(err[name], true, 0, rel=1e-9):
            if refit and O.close(err[name], sel[name], 0, rel=1e-9):
                add("daily-error-from-selection-stage-fit", "model.error[%s]=%.9g is the statistic of the selection-stage component fits, "
                    "not of the final (refit) model's predictions on the baseline (%.9g)" % (name, err[name], true), field=name, family=fam)
            else:
                add("daily-error-differs-from-formula", "model.error[%s]=%.12g but predict(baseline) gives %.12g" % (name, err[name], true), field=name, family=fam)
    if not (O.close(err["PNRMSE"], pn_a, 0, rel=1e-9) or O.close(err["PNRMSE"], pn_b, 0, rel=1e-9)):
        sp = sel["RMSE"] / (O.quantile(os_, 0.95) - O.quantile(os_, 0.05))
        if refit and O.close(err["PNRMSE"], sp, 0, rel=1e-9):
            add("daily-error-from-selection-stage-fit", "model.error[PNRMSE] is the selection-stage statistic", field="PNRMSE", family=fam)
        else:
            add("daily-error-differs-from-formula", "model.error[PNRMSE]=%.12g vs %.12g/%.12g" % (err["PNRMSE"], pn_a, pn_b), field="PNRMSE", family=fam)
    # ---- gate ---------------------------------------------------------------------------------
    thr0 = m.settings.cvrmse_threshold
    if spec.get("reused_model_object"):
        lo_, hi_ = sorted((err["CVRMSE"], cv))
        if not (lo_ <= thr0 <= hi_) or abs(err["CVRMSE"] - cv) > 0.2 * cv:
            poor = [w for w in m.disqualification if "model_fit" in w.qualified_name]
            I.reach("monitor.daily_gate")
            if bool(poor) != (cv > thr0):
                add("daily-poor-fit-gate:reused-model-object", "re-used model object: poor-fit disqualification %s but CVRMSE of its predictions is %.4g (threshold %.4g, reported %.4g)" % (bool(poor), cv, thr0, err["CVRMSE"]), family=fam)
        return
    for f in (1.01, 0.99):
        # threshold just above / below the *true* CVRMSE, skipping thresholds that fall between the
        # reported and the true value (that disagreement is finding 'selection-stage' above)
        thr = cv * f
        lo, hi = sorted((err["CVRMSE"], cv))
        if lo <= thr <= hi:
            continue
        try:
            m2 = mk(settings={"developer_mode": True, "silent_developer_mode": True, "cvrmse_threshold": thr}).fit(copy.deepcopy(bd), ignore_disqualification=True)
        except Exception as e:
            add("daily-gate-refit-failed", "refit with cvrmse_threshold=%r raised %s" % (thr, type(e).__name__))
            continue
        if not O.close(m2.error["CVRMSE"], err["CVRMSE"], 0, 1e-9):
            add("daily-refit-not-reproducible", "same data refit gave another CVRMSE")
            continue
        I.reach("monitor.daily_gate")
        poor = [w for w in m2.disqualification if "model_fit" in w.qualified_name]
        expect = cv > thr
        hist["daily_gate"]["expect_dq=%s" % expect] = hist["daily_gate"].get("expect_dq=%s" % expect, 0) + 1
        if bool(poor) != expect:
            add("daily-poor-fit-gate", "poor-fit disqualification %s but CVRMSE=%.6g threshold=%.6g" % (bool(poor), cv, thr), family=fam)


def gen_cases(tier, seed):
    q = tier == "quick"
    cases = [dict(kind="direct", n=40 if q else 100, batch=b) for b in range(16 if q else 200)]
    zones = ["America/Chicago", "UTC", "Australia/Sydney", "Europe/London", "Asia/Kolkata", "America/Los_Angeles"]
    nh = 5 if q else 36
    for k in range(nh):
        cases.append(dict(kind="hourly", tz=zones[k % len(zones)], ghi=bool(k % 3 == 1), noise=[0.05, 0.3, 0.8][k % 3],
                          pure_noise=bool(k % 5 == 4), mseed=k + 1, batch=k, timeout=1200))
    cases.append(dict(kind="hourly", tz="America/Chicago", ghi=False, noise=0.05, pure_noise=False, net_metered_zero_mean=True, mseed=77, batch=900, timeout=1200))
    cases.append(dict(kind="hourly", tz="UTC", ghi=False, noise=0.05, pure_noise=False, sparse_zero_iqr=True, mseed=79, batch=902, timeout=1200))
    if not q:
        cases.append(dict(kind="hourly", tz="Europe/London", ghi=True, noise=0.3, pure_noise=False, net_metered_zero_mean=True, mseed=78, batch=901, timeout=1200))
        cases.append(dict(kind="hourly", tz="Australia/Sydney", ghi=False, noise=0.3, pure_noise=False, sparse_zero_iqr=True, mseed=80, batch=903, timeout=1200))
    nd = 10 if q else 90
    fams = ["current", "legacy", "billing"]
    for k in range(nd):
        cases.append(dict(kind="daily", family=fams[k % 3], tz=zones[(k // 3) % len(zones)],
                          usage_kind=["both", "heating", "cooling", "flat"][k % 4], noise=[0.02, 0.15, 0.5][(k // 2) % 3],
                          weekend=0.3 if k % 4 == 0 else 0.0, pure_noise=bool(k % 7 == 6), batch=k, timeout=1200))
    for k in range(3 if q else 12):
        cases.append(dict(kind="daily", family=fams[k % 3], tz=zones[k % len(zones)], usage_kind="both", noise=[0.5, 0.15, 0.5][k % 3], weekend=0.0,
                          pure_noise=bool(k % 2 == 0), reused_model_object=True, batch=500 + k, timeout=1200))
    return cases


def run_case(spec):
    rng = rng_for(spec["seed"], ID, {"direct": 1, "hourly": 2, "daily": 3}[spec["kind"]], spec["batch"])
    del VIOL[:]
    keys, hist = set(), {"edge": {}, "hourly_gate": {}, "daily_gate": {}, "daily_final_refit": {}, "hourly_interpolated_hours": {}}
    if spec["kind"] == "direct":
        _direct(spec, rng, keys, hist)
        ev = spec["n"]
    elif spec["kind"] == "hourly":
        _hourly_fit(spec, rng, keys, hist)
        ev = 5
    else:
        s = dict(spec)
        s["kind"] = s.pop("usage_kind")
        _daily_fit(s, rng, keys, hist)
        ev = 3
    seen, kept = {}, []
    for v in VIOL:
        seen[v["mech"]] = seen.get(v["mech"], 0) + 1
        if seen[v["mech"]] <= 3:
            kept.append(dict(v))
    return dict(viol=kept, reach=I.take_reach(), keys=sorted(keys), hist=hist, events=ev)
