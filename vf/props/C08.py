"""C08 — usage is conserved when meter data is resampled to days.

Boundary observation of data.df['observed'] of the real daily/billing data classes against an exact
interval-arithmetic reference (fractions.Fraction over integer-valued readings): every reading is a
constant rate over its interval; billing periods are spread over their days, sub-daily readings summed
per local calendar day, the coverage rules (> half: scaled by 1/coverage, <= half: missing) and the
off-cycle rules (<25, >35 / >70 days) applied.  icontract post-conditions on the real as_freq and
clean_billing_data count which branches ran."""
from fractions import Fraction

import numpy as np
import pandas as pd

from vf import instrument as I
from vf.gen import rng_for, daily_index

ID = "C08"
TECHNIQUE = "runtime monitoring: conservation checker (exact rational interval arithmetic) over the real data classes' daily frames for billing and sub-daily meter series; contracts on as_freq / clean_billing_daily_data"
LEVEL = "exploration"
NEEDS_NUMBA = False
CASE_TIMEOUT = 1800
RULE = ("generated datasets: billing read calendars (monthly 25-35 d, bi-monthly 50-70 d, off-cycle reads <25 / >35 / >70 d) and 15/30/60-minute and daily "
        "readings, integer-valued, in whole-hour-DST zones, fixed-offset zones and UTC, spans containing DST days, gaps placed anywhere (NaN cells, "
        "absent rows: isolated, runs, > half of a day, exactly half), zero reads; frame and from_series entry points of the daily and billing "
        "classes.  distinct_nontrivial = distinct (class, entry, interval, zone, gap/off-cycle pattern, has DST day) datasets with at least two periods/days judged.")
ASSUMPTIONS = ["a sub-daily reading covers its nominal interval (15/30/60 min), a billing/daily reading the time up to the next reading",
               "the final day / final period (open-ended last interval) is excluded", "tolerance 1e-9 relative against exact rational arithmetic",
               "billing reads are monthly when the median period is <= 35 days, else bi-monthly"]
REQUIRED_REACH = {"dataset.judged": 40, "billing.periods_judged": 100, "billing.offcycle_periods": 5, "subdaily.days_judged": 1000, "subdaily.full_days": 800,
                  "subdaily.partial_days_over_half": 10, "subdaily.days_half_or_less": 10, "subdaily.dst_days": 5, "post.as_freq_cumulative": 30,
                  "post.clean_billing_data": 10, "subdaily.series_starting_midday": 6, "billing.gas_zero_reads": 1, "subdaily.gas_all_zero_days": 3, "billing.net_metered_credit_bills": 3, "entry.frame_with_datetime_column": 6, "subdaily.net_metered_negative_readings": 2000}

VIOL = []


class ContractBroken(Exception):
    pass


def add(mech, what, **kw):
    if sum(1 for v in VIOL if v["mech"] == mech) < 3:
        VIOL.append(dict(mech=mech, what=what, **kw))


def as_freq_post(data_series, freq, atomic_freq, series_type, include_coverage, result):
    if series_type == "cumulative":
        I.reach("post.as_freq_cumulative")
    else:
        I.reach("post.as_freq_instantaneous")
    return True


def clean_post(data, source_interval, warnings, result):
    I.reach("post.clean_billing_data")
    return True


_done = False


def setup_worker():
    global _done
    if _done:
        return
    import icontract
    import opendsm.eemeter  # noqa
    import opendsm.eemeter.common.data_processor_utilities as U
    for name, post in (("as_freq", as_freq_post), ("clean_billing_data", clean_post)):
        orig = getattr(U, name)
        dec = icontract.ensure(post, error=ContractBroken)(orig)
        setattr(U, name, dec)
        I.patch_everywhere(orig, dec)
    _done = True


def ns(idx):
    return idx.asi8 if idx.unit == "ns" else idx.as_unit("ns").asi8


def hourly_temp(tz, t0, t1, rng):
    idx = pd.date_range(t0.tz_convert("UTC"), t1.tz_convert("UTC"), freq="h", inclusive="left").tz_convert(tz)
    return pd.Series(np.round(55 + rng.normal(0, 8, len(idx)), 1), index=idx, name="temp")


# ---------------------------------------------------------------------------------------------------
def billing_case(spec, rng, keys):
    import opendsm.eemeter as em
    tz = spec["tz"]
    nper = spec["n_periods"]
    lo, hi = (25, 35) if spec["cycle"] == "monthly" else (50, 70)
    steps = rng.integers(lo, hi + 1, nper)
    off = spec["offcycle"]
    offidx = []
    if off != "none":
        for _ in range(int(rng.integers(1, 3))):
            j = int(rng.integers(1, nper - 1))
            steps[j] = {"short": int(rng.integers(3, 25)), "long": int(rng.integers(36, 50)) if spec["cycle"] == "monthly" else int(rng.integers(71, 90)),
                        "edge25": 25, "edge24": 24, "edge35": 35 if spec["cycle"] == "monthly" else 70, "edge36": 36 if spec["cycle"] == "monthly" else 71}[off]
            offidx.append(j)
    days = int(steps.sum())
    start = str((pd.Timestamp("2018-01-01") + pd.Timedelta(days=int(rng.integers(0, 500)))).date())
    didx = daily_index(tz, start, days + 1)
    starts = np.concatenate([[0], np.cumsum(steps)])
    vals = rng.integers(200, 3000, nper).astype(float)
    if spec.get("net_metered"):
        # electricity meter with on-site generation: credit bills (negative usage is usage, not a missing read)
        for j in rng.choice(nper, size=min(nper, 3), replace=False):
            vals[j] = -float(rng.integers(20, 900))
        I.reach("billing.net_metered_credit_bills")
    gas = bool(spec.get("gas"))                                   # non-electric meter: a zero read is real usage (a summer gas bill), not a missing read
    if spec.get("zero_read"):
        vals[int(rng.integers(0, nper))] = 0.0
        if gas:
            vals[int(rng.integers(0, nper))] = 0.0
            I.reach("billing.gas_zero_reads")
    reads = pd.Series(np.concatenate([vals, [np.nan]]), index=didx[starts], name="value")
    temp = pd.Series(np.round(55 + rng.normal(0, 8, days + 1), 1), index=didx, name="temp")
    if spec["entry"] == "series" and spec["n"] % 2:
        # the weather feed starts before the first read and runs past the last one: those days belong to no billed period
        eb, ea = int(rng.integers(0, 9)), int(rng.integers(1, 15))
        fidx = daily_index(tz, str((pd.Timestamp(start) - pd.Timedelta(days=eb)).date()), days + 1 + eb + ea)
        if fidx[eb] == didx[0]:
            temp = pd.Series(np.round(55 + rng.normal(0, 8, len(fidx)), 1), index=fidx, name="temp")
            I.reach("billing.feed_longer_than_the_read_calendar")
    median = float(np.median(steps))
    monthly = median <= 35
    cls = em.BillingBaselineData if spec["role"] == "baseline" else em.BillingReportingData
    tag = {k: spec[k] for k in ("tz", "cycle", "offcycle", "entry", "role")}
    try:
        if spec["entry"] == "series":
            data = cls.from_series(reads, temp, is_electricity_data=not gas)
        else:
            df = pd.DataFrame({"temperature": temp})
            df["observed"] = reads.reindex(didx)
            fr_ = df.iloc[:-1]
            if spec["n"] % 3 != 2:
                fr_ = fr_.rename_axis("datetime").reset_index()          # the documented tz-aware 'datetime' column instead of the index
                I.reach("entry.frame_with_datetime_column")
            data = cls(fr_, is_electricity_data=not gas)
    except Exception as e:
        add("constructor-raised:billing:%s" % type(e).__name__, "billing %s entry raised %s: %s" % (spec["entry"], type(e).__name__, str(e)[:160]), **tag)
        return 1
    I.reach("dataset.judged")
    out = data.df
    if "observed" not in out.columns:
        add("billing-usage-column-dropped", "data.df has no observed column", **tag)
        return 1
    o = out["observed"]
    t = ns(out.index)
    b = ns(didx)
    dst = bool(len(set(didx.hour)) > 1 or len(set(np.diff(b))) > 1)
    n = 0
    for i in range(nper):                                       # every billed period, the final one included
        a0, a1 = b[starts[i]], b[starts[i + 1]]
        sel = (t >= a0) & (t < a1)
        L = int(steps[i])
        valid = 25 <= L <= (35 if monthly else 70)
        amount = vals[i]
        got = o.to_numpy(dtype=float)[sel]
        I.reach("billing.periods_judged")
        n += 1
        near_missing_read = (amount == 0.0 or (i + 1 < nper and vals[i + 1] == 0.0) or (i > 0 and vals[i - 1] == 0.0)) and not gas
        if near_missing_read:
            # recorded mechanism: a missing (zero electric) read is dropped before the period lengths are computed, so the periods around
            # it are merged: lengths, validity and shares of exactly these periods follow the merged calendar, not the billed one
            lo_, hi_ = b[starts[max(0, i - 1)]], b[starts[min(nper, i + 2)]]
            g_ = o.to_numpy(dtype=float)[(t >= a0) & (t < a1)]
            exp_missing = amount == 0.0 or not valid
            differs = (np.isfinite(g_).any() if exp_missing else (not np.isfinite(g_).all() or abs(float(np.sum(g_)) - amount) > 1e-9 * max(1.0, amount)))
            if differs:
                add("billing-periods-around-a-missing-read-are-merged:%s" % ("monthly" if monthly else "bimonthly"),
                    "period of %d days starting %s next to a missing (zero) read: data.df holds %s, billed calendar says %s" % (
                        L, didx[starts[i]], "usage %.3f" % float(np.nansum(g_)) if np.isfinite(g_).any() else "nothing", "nothing" if exp_missing else "%.3f" % amount), **tag)
            continue
        if amount == 0.0 and not gas:
            valid_amount = None          # zero electric read = missing
        else:
            valid_amount = amount
        if not valid:
            I.reach("billing.offcycle_periods")
            if np.isfinite(got).any():
                add("off-cycle-period-survives:%s:%d-days" % ("monthly" if monthly else "bimonthly", L if L in (24, 25, 35, 36, 70, 71) else (0 if L < 25 else 99)),
                    "period of %d days starting %s (%s reads) keeps usage %.3f" % (L, didx[starts[i]], "monthly" if monthly else "bi-monthly", float(np.nansum(got))), **tag)
            continue
        if valid_amount is None:
            if np.isfinite(got).any() and abs(np.nansum(got)) > 1e-9:
                add("zero-electric-read-not-missing:billing", "zero read spread as usage", **tag)
            continue
        if sel.sum() != L:
            add("billing-period-days-missing-from-frame", "period %s: %d day rows for %d days" % (didx[starts[i]], int(sel.sum()), L), **tag)
            continue
        if not np.isfinite(got).all():
            nxt_missing = i + 1 < nper and vals[i + 1] == 0.0
            add("valid-billing-period-has-missing-days:%s%s" % ("monthly" if monthly else "bimonthly", ":period-before-a-missing-read-is-merged-with-it" if nxt_missing else ""), "valid period of %d days starting %s has %d missing days" % (L, didx[starts[i]], int((~np.isfinite(got)).sum())), **tag)
            continue
        tot = float(np.sum(got))
        if abs(tot - amount) > 1e-9 * max(1.0, abs(amount)):
            add("billing-period-not-conserved:%s%s" % ("monthly" if monthly else "bimonthly", ":dst" if dst else ""),
                "daily values of the %d-day period starting %s add up to %.6f, billed %.6f" % (L, didx[starts[i]], tot, amount), **tag)
        # constant rate: each day's share is amount * day length / period length
        per = np.diff(np.concatenate([t[sel], [a1]])).astype(float)
        exp = amount * per / float(a1 - a0)
        if np.max(np.abs(got - exp)) > 1e-9 * max(1.0, amount):
            add("billing-period-not-a-constant-rate%s" % (":dst" if dst else ""), "period starting %s: daily shares are not amount*day/period" % didx[starts[i]], **tag)
    # nothing invented: days outside every period carry no usage
    outside = (t < b[starts[0]]) | (t >= b[starts[-1]])
    I.reach("billing.rows_outside_every_period_checked", int(outside.sum()))
    if np.isfinite(o.to_numpy(dtype=float)[outside]).any():
        j = int(np.argmax(outside & np.isfinite(o.to_numpy(dtype=float))))
        add("usage-invented-outside-every-billing-period", "day %s lies outside every billed period but carries usage %r" % (out.index[j], float(o.iloc[j])), **tag)
    keys.add("billing|%s|%s|%s|%s|%s|%s" % (spec["role"], spec["entry"], spec["cycle"], tz, off, dst))
    return n


def subdaily_case(spec, rng, keys):
    import opendsm.eemeter as em
    tz, minutes = spec["tz"], spec["minutes"]
    ndays = spec["days"]
    start = spec["start"]
    d0 = daily_index(tz, start, ndays + 1)
    t0, t1 = d0[0], d0[-1]
    if minutes >= 1440:
        idx = d0[:-1]
    else:
        idx = pd.date_range(t0.tz_convert("UTC"), t1.tz_convert("UTC"), freq="%dmin" % minutes, inclusive="left").tz_convert(tz)
    v = rng.integers(1, 60, len(idx)).astype(float)
    if spec.get("net_metered"):
        # electricity meter with on-site generation: export intervals read negative (never exactly zero here: zero is a missing read)
        v = v - 25.0
        v[v == 0] = -1.0
        I.reach("subdaily.net_metered_negative_readings", int((v < 0).sum()))
    mask = np.zeros(len(idx), bool)                          # True = reading missing
    day_id = np.searchsorted(ns(d0), ns(idx), side="right") - 1
    pat = spec["pattern"]
    inner = np.arange(1, ndays - 1)
    if pat == "isolated":
        mask[rng.random(len(idx)) < 0.03] = True
    elif pat == "runs":
        for _ in range(4):
            a = int(rng.integers(0, max(1, len(idx) - 50)))
            mask[a:a + int(rng.integers(2, 40))] = True
    elif pat == "over_half":
        for d in rng.choice(inner, size=min(6, len(inner)), replace=False):
            ii = np.flatnonzero(day_id == d)
            mask[rng.choice(ii, size=int(len(ii) * rng.uniform(0.55, 0.9)), replace=False)] = True
    elif pat == "exactly_half":
        for d in rng.choice(inner, size=min(6, len(inner)), replace=False):
            ii = np.flatnonzero(day_id == d)
            mask[rng.choice(ii, size=len(ii) // 2, replace=False)] = True
    elif pat == "under_half":
        for d in rng.choice(inner, size=min(6, len(inner)), replace=False):
            ii = np.flatnonzero(day_id == d)
            mask[rng.choice(ii, size=int(len(ii) * rng.uniform(0.1, 0.45)), replace=False)] = True
    elif pat == "whole_days":
        for d in rng.choice(inner, size=min(4, len(inner)), replace=False):
            mask[day_id == d] = True
    elif pat == "zeros":
        v[rng.random(len(idx)) < 0.03] = 0.0
    electric = not spec.get("gas")
    if not electric and pat in ("zeros", "none"):
        # a gas meter that really uses nothing on some days: every reading of those days is exactly 0 (the day's usage is 0, not missing)
        for d in rng.choice(inner, size=min(3, len(inner)), replace=False):
            v[day_id == d] = 0.0
        I.reach("subdaily.gas_all_zero_days")
    if spec.get("start_offset_frac") and minutes < 1440:
        # the series starts part-way through its first local day (aligned to the reading interval, not to midnight)
        first = np.flatnonzero(day_id == 0)
        k0 = int(len(first) * spec["start_offset_frac"])
        mask[first[:k0]] = True
        lead = k0
    else:
        lead = 0
    mask[lead] = False
    mask[-1] = False
    if minutes >= 1440:
        mask[:] = False if pat not in ("isolated", "runs", "whole_days") else mask
    absent = spec["gap_kind"] == "absent"
    meter = pd.Series(np.where(mask, np.nan, v), index=idx, name="value")
    if absent:
        meter = meter[~mask]
    elif lead:
        meter = meter.iloc[lead:]                                  # the leading part of the first day is simply not there
    temp = hourly_temp(tz, t0, t1, rng)
    tag = {k: spec[k] for k in ("tz", "minutes", "pattern", "gap_kind", "entry", "start", "days")}
    try:
        if spec["entry"] == "series":
            data = em.DailyBaselineData.from_series(meter, temp, is_electricity_data=electric)
        else:
            df = pd.DataFrame({"temperature": temp})
            df = df.join(meter.rename("observed"), how="outer")
            if minutes < 60:
                df["temperature"] = df["temperature"].ffill()
            if spec["n"] % 3 != 2:
                df = df.rename_axis("datetime").reset_index()            # the documented tz-aware 'datetime' column instead of the index
                I.reach("entry.frame_with_datetime_column")
            data = em.DailyBaselineData(df, is_electricity_data=electric)
    except Exception as e:
        import traceback
        tb = traceback.extract_tb(e.__traceback__)
        add("constructor-raised:daily:%s:%s:%dmin" % (type(e).__name__, tb[-1].name, minutes), "daily %s entry with %d-minute readings raised %s: %s" % (spec["entry"], minutes, type(e).__name__, str(e)[:160]), **tag)
        return 1
    I.reach("dataset.judged")
    if spec.get("start_offset_frac"):
        I.reach("subdaily.series_starting_midday")
    out = data.df
    if "observed" not in out.columns:
        add("usage-column-dropped", "data.df has no observed column", **tag)
        return 1
    t = ns(out.index)
    b = ns(d0)
    got_all = out["observed"].to_numpy(dtype=float)
    pos = pd.Index(t).get_indexer(b[:-1])
    present = ~mask & ~((v == 0.0) & electric)
    n = 0
    mism = []
    gap_days = set()
    per_day = {}
    for d in range(ndays - 1):                                 # final day excluded
        ii = day_id == d
        exp_n = int(ii.sum())
        ok = present & ii
        n_ok = int(ok.sum())
        s = Fraction(int(v[ok].sum()))
        I.reach("subdaily.days_judged")
        if exp_n not in (1440 // minutes if minutes < 1440 else 1,):
            I.reach("subdaily.dst_days")
        if n_ok == exp_n:
            I.reach("subdaily.full_days")
            exp = float(s)
        elif n_ok * 2 > exp_n:
            I.reach("subdaily.partial_days_over_half")
            exp = float(s * exp_n / n_ok)
            gap_days.add(d)
        else:
            I.reach("subdaily.days_half_or_less")
            exp = np.nan
            gap_days.add(d)
        g = got_all[pos[d]] if pos[d] >= 0 else np.nan
        per_day[d] = (g, exp, n_ok, exp_n, float(s))
        n += 1
        if (np.isnan(exp) != np.isnan(g)) or (not np.isnan(exp) and abs(g - exp) > 1e-9 * max(1.0, abs(exp))):
            mism.append(d)
    if mism:
        # classifier of the recorded mechanism: every mismatching day is a gap day or the day left of a gap day, the frame never
        # reports a day as missing/scaled, and the total over the run [left neighbour .. gap end] is what was metered in that run
        # (the excluded final day counts as a gap day for its left neighbour when one of its readings is missing)
        gd = set(gap_days) | ({ndays - 1} if (~present & (day_id == ndays - 1)).any() else set())
        neigh = gd | {d - 1 for d in gd} | {d + 1 for d in gd}
        only_near_gaps = set(mism) <= neigh
        coverage_rule_never_applied = all(not np.isnan(per_day[d][0]) for d in mism if per_day[d][2] > 0) if mism else False
        total_got = float(np.nansum([per_day[d][0] for d in per_day]))
        total_metered = float(sum(per_day[d][4] for d in per_day))
        conserved = abs(total_got - total_metered) <= 1e-6 * max(1.0, total_metered) + 60.0 * 2      # edge readings next to the excluded final day
        d = mism[0]
        g, exp, n_ok, exp_n, s = per_day[d]
        leading = bool(lead) and 0 in mism          # a first day that is only partly spanned has no reading before its gap: not the recorded mechanism
        if leading:
            g, exp, n_ok, exp_n, s_ = per_day[0]
            add("daily-usage-differs-from-interval-arithmetic:%dmin:first-day-partly-spanned" % minutes,
                "series starts part-way through its first local day (%d of %d readings): data.df holds %r, expected %r (sum %g)" % (n_ok, exp_n, g, exp, s_), **tag)
        elif minutes < 1440 and gap_days and only_near_gaps and conserved:
            add("sub-daily-gap-not-detected-reading-before-the-gap-spread-over-it:%s" % spec["gap_kind"],
                "%d days differ, all at or next to days with missing readings; e.g. local day %s holds %r, expected %r (%d of %d readings present, sum %g): the coverage rule never fires, "
                "the metered total is kept (%g vs %g)" % (len(mism), d0[d].date(), g, exp, n_ok, exp_n, s, total_got, total_metered), n_days=len(mism), **tag)
        else:
            kind = "full-day" if n_ok == exp_n else ("over-half-day" if n_ok * 2 > exp_n else "half-or-less-day")
            add("daily-usage-differs-from-interval-arithmetic:%dmin:%s:%s" % (minutes, kind, "near-gaps" if only_near_gaps else "away-from-gaps"),
                "%d days differ; e.g. local day %s holds %r, expected %r (%d of %d readings present, sum %g)" % (len(mism), d0[d].date(), g, exp, n_ok, exp_n, s), n_days=len(mism), **tag)
    dst = any(int((day_id == d).sum()) != (1440 // minutes if minutes < 1440 else 1) for d in range(ndays))
    keys.add("sub|%s|%d|%s|%s|%s|%s" % (spec["entry"], minutes, tz, pat, spec["gap_kind"], dst))
    return n


def run_case(spec):
    rng = rng_for(spec["seed"], ID, spec["n"])
    del VIOL[:]
    keys = set()
    n = billing_case(spec, rng, keys) if spec["kind"] == "billing" else subdaily_case(spec, rng, keys)
    return dict(viol=[dict(v) for v in VIOL], reach=I.take_reach(), keys=sorted(keys), hist={"kind": spec["kind"], "pattern": spec.get("pattern", spec.get("offcycle"))}, events=n)


def gen_cases(tier, seed):
    rng = np.random.default_rng([seed, 8])
    q = tier == "quick"
    zones = ["America/Chicago", "UTC", "Europe/London", "Australia/Sydney", "Asia/Tokyo", "America/Los_Angeles", "Europe/Berlin", "Pacific/Auckland", "America/Phoenix", "America/New_York"]
    cases = []
    k = 0
    offs = ["none", "none", "short", "long", "edge25", "edge24", "edge35", "edge36"]
    for i in range(24 if q else 500):
        cases.append(dict(kind="billing", tz=zones[i % (5 if q else len(zones))], cycle="monthly" if i % 3 else "bimonthly", offcycle=offs[i % len(offs)],
                          n_periods=int(rng.integers(8, 15)) if i % 3 else int(rng.integers(6, 9)), entry="series" if i % 4 else "frame",
                          role="baseline" if i % 5 else "reporting", zero_read=bool(i % 11 == 10 or i % 7 == 3), gas=bool(i % 7 == 3), n=k))
        k += 1
    for c_ in cases:
        if c_["n"] % 6 == 4 and not c_.get("gas") and not c_.get("zero_read"):
            c_["net_metered"] = True
    pats = ["none", "isolated", "runs", "over_half", "exactly_half", "under_half", "whole_days", "zeros"]
    for i in range(48 if q else 1000):
        minutes = [60, 15, 30, 60, 1440, 30][i % 6]
        start = str(rng.choice(["2019-03-01", "2019-10-20", "2020-03-20", "2019-09-25"])) if rng.random() < 0.5 else str((pd.Timestamp("2019-01-01") + pd.Timedelta(days=int(rng.integers(0, 700)))).date())
        cases.append(dict(kind="subdaily", tz=zones[i % (5 if q else len(zones))], minutes=minutes, pattern=pats[(i // 2) % len(pats)] if minutes < 1440 else ["none", "isolated", "zeros"][i % 3],
                          gap_kind="nan" if i % 2 else "absent", entry="series" if i % 3 else "frame", start=start, days=int(rng.choice([20, 35, 50])), n=k))
        if cases[-1]["pattern"] in ("zeros", "none") and i % 5 < 3:
            cases[-1]["gas"] = True
        elif i % 4 == 1:
            cases[-1]["net_metered"] = True
        k += 1
    for i in range(12 if q else 150):
        minutes = [60, 15, 30][i % 3]
        cases.append(dict(kind="subdaily", tz=zones[i % (5 if q else len(zones))], minutes=minutes, pattern="none", gap_kind="nan" if i % 2 else "absent", entry="series" if i % 2 else "frame",
                          start=str((pd.Timestamp("2019-01-01") + pd.Timedelta(days=int(rng.integers(0, 700)))).date()), days=int(rng.choice([12, 20])),
                          start_offset_frac=[0.25, 0.5, 0.27, 0.75, 0.4, 0.6][i % 6], n=k))
        k += 1
    return cases
