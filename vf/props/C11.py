"""C11 — the daily model curve is continuous, monotone and its load components add up.

Models are built from parameters (DailyModel.from_dict) with coefficient vectors drawn inside the
optimiser's box for each of the seven shapes (including the bounds themselves), and predicted on
dense temperature sweeps -60..140F that contain the balance points +-1 ulp.  A post-condition on the
real DailyModel._predict_submodel (the function every prediction goes through) judges each
evaluation; the boundary predict() is observed too; a wrapper on the numba kernel `full_model`
classifies which regime each evaluation took (reach counters per regime)."""
import math
import os
import subprocess
import sys
import tempfile
import json

import numpy as np
import pandas as pd

from vf import instrument as I
from vf.gen import rng_for
from vf import dailybuild as B
from vf.oracle import daily_formula as F

ID = "C11"
TECHNIQUE = 'runtime monitoring: icontract post-condition on the real DailyModel._predict_submodel judging every evaluation (continuity, flat between balance points, monotone, exact line / asymptote, load additivity); kernel-regime reach via a wrapper on full_model; bounds-checked and interpreted numba builds (thorough)'
LEVEL = "exploration"
CASE_TIMEOUT = 1500
RULE = ("coefficient vectors drawn inside the optimiser's box per shape (balance points in [T_min_seg,T_max_seg] including the "
        "bounds, T_min/T_max, equal balance points; slopes 0..20; percent-k in [0,1] incl. 0, <0.01, 1 and sums >1; absolute k "
        "up to 1e3) x temperature sweep -60..140F step 0.05 plus every balance point +-1ulp and the range limits; every "
        "evaluation of _predict_submodel is judged.  distinct_nontrivial = distinct (shape, kernel regime set, bound-hit class) "
        "x coefficient vector with at least one non-zero slope.")
ASSUMPTIONS = [
    "balance points are the effective ones (after the documented percent-k shift) computed from the JSON coefficients alone",
    "a single-slope shape is constrained on its own side; flatness on the other side is judged inside the fitted temperature range only",
    "additivity and exact-line tolerances: 4 ulp of the value scale",
]
REQUIRED_REACH = {"repeat.evaluations_compared": 300, "document.imported_from_2_0": 100, "repeat.other_temperature_dtype_compared": 300, "post.predict_submodel": 300, "regime.smoothed": 50, "regime.plain": 50, "regime.flat": 5,
                  "regime.equal_bp_at_Tmax": 3, "regime.equal_bp_at_Tmin": 3, "clause.between_flat": 100,
                  "clause.monotone": 300, "clause.exact_line": 100, "clause.asymptote": 30, "clause.loads": 300,
                  "boundary.predict": 20, "regime.percent_k_sum_at_or_above_one": 1500, "document.balance_points_in_reversed_order": 30}
REQUIRED_REACH_THOROUGH = {"kernel.boundscheck_equal": 1, "kernel.interpreted_equal": 1}

VIOL = []
CUR = {}


class ContractBroken(Exception):
    pass


SINGLE = ("hdd_tidd", "hdd_tidd_smooth", "tidd_cdd", "tidd_cdd_smooth")


def add(mech, what, **kw):
    """mechanism = clause:shape:where, except for the one recorded class of documents (single-slope shape whose
    balance point lies outside the segment box [T_min_seg, T_max_seg]): there the witness is keyed by that class
    alone, but ONLY when the whole evaluation is reproduced by the recorded defect's own model (explained_by_known);
    any other deviation on such a document keeps its clause mechanism and is reported."""
    coef, tc = CUR.get("coef"), CUR.get("tc")
    if coef and coef["model_type"] in SINGLE and CUR.get("eval") is not None:
        bp = coef["hdd_bp"] if coef["hdd_bp"] is not None else coef["cdd_bp"]
        if bp < tc["T_min_seg"] or bp > tc["T_max_seg"]:
            if "explained" not in CUR:
                CUR["explained"] = explained_by_known(coef, tc, *CUR["eval"])
            I.reach("classifier.single_slope_outside_box." + ("explained" if CUR["explained"] else "unexplained"))
            if CUR["explained"]:
                kw["clause"] = mech
                mech = "single-slope-bp-outside-segment-box:" + ("smoothed" if coef["model_type"].endswith("smooth") else "unsmoothed")
            else:
                mech = mech + ":not-the-recorded-mechanism"
    VIOL.append(dict(mech=mech, what=what, coef=coef, tc=tc, **kw))


# the exponent clip of the smoothing expression (opendsm.common.utils: sqrt(tiny*1e20) .. sqrt(max*1e-20))
LN_MIN, LN_MAX = 0.5 * math.log(np.finfo(float).tiny * 1e20), 0.5 * math.log(np.finfo(float).max * 1e-20)


def explained_by_known(coef, tc, T, y, h, c):
    """The recorded C11 finding, as an executable model.  True iff the evaluation is what that defect predicts:
      unsmoothed single slope: the documented curve with the balance point moved onto the nearer segment limit;
      smoothed single slope with the balance point at/above T_max: every temperature is given to the heating side
        (heating shape: the smoothed heating expression also above the balance point; cooling shape: flat).
    Loads: usage minus intercept, on the side of the (moved) balance point the library assigns it to."""
    mt = coef["model_type"]
    b0 = float(coef["intercept"])
    heating = mt.startswith("hdd")
    bp = float(coef["hdd_bp"] if heating else coef["cdd_bp"])
    beta = abs(float(coef["hdd_beta"] if heating else coef["cdd_beta"]))
    if not mt.endswith("smooth"):
        bpc = min(max(bp, tc["T_min_seg"]), tc["T_max_seg"])
        if heating:
            exp = b0 + beta * np.maximum(0.0, bpc - T)
        else:
            exp = b0 + beta * np.maximum(0.0, T - bpc)
        tol = 8 * np.spacing(np.maximum(np.abs(exp), abs(b0) + beta * (abs(bpc) + np.abs(T))))
    else:
        if bp < tc["T_max"]:
            return False
        k = float(coef["hdd_k"] if heating else coef["cdd_k"])
        if not heating:
            exp = np.full_like(T, b0)
            tol = np.zeros_like(T)
        else:
            if k == 0:
                exp = b0 - beta * (T - bp)
            else:
                z = np.clip((T - bp) / k, LN_MIN, LN_MAX)
                with np.errstate(over="ignore", invalid="ignore"):
                    exp = np.abs(beta * k) * (np.exp(z) - 1) - beta * (T - bp) + b0
            tol = 1e-9 * np.maximum(np.abs(exp), abs(b0) + beta * (abs(k) + np.abs(T - bp)))
        bpc = bp
    with np.errstate(invalid="ignore"):
        if not (np.abs(y - exp) <= tol).all():
            return False
    load = y - b0
    eh = np.where(T <= bpc, load, 0.0)
    ec = np.where(T >= bpc, load, 0.0)
    return bool(np.array_equal(h, eh) and np.array_equal(c, ec))


def ulp_tol(scale, n=4):
    return n * np.spacing(max(abs(scale), 1e-300))


def judge(coef, tc, T, y, h, c):
    """All clauses of the statement on one evaluation (T sorted ascending)."""
    e = F.effective(coef)
    b0, H, C, bh, bc, kh, kc = e["b0"], e["H"], e["C"], e["bh"], e["bc"], e["kh"], e["kc"]
    CUR["eval"] = (T, y, h, c)
    CUR.pop("explained", None)
    scale = float(np.max(np.abs(y))) if len(y) else 1.0
    # magnitudes of the intermediates of the smoothed formula |beta*k|(e^z - 1) + beta(T - bp): rounding errors scale with them
    scale = max(scale, abs(b0), bh * kh, bc * kc, 1e-12)
    tol = ulp_tol(scale, 8)
    maxslope = max(bh, bc)
    dT = np.diff(T)
    dy = np.diff(y)
    if not np.all(np.isfinite(y)):
        add("non-finite", "non-finite prediction for a finite temperature", n=int((~np.isfinite(y)).sum()))
        return
    # (1) continuity -----------------------------------------------------------------------------
    I.reach("clause.continuity")
    jump = np.abs(dy) - (maxslope * dT * (1 + 1e-9) + 16 * np.spacing(scale) + 1e-9 * maxslope)
    if (jump > 0).any():
        i = int(np.argmax(jump))
        add("discontinuity" + _where(T[i], coef, tc), "jump of %.6g between T=%r and T=%r (max slope %.4g)" % (dy[i], T[i], T[i + 1], maxslope),
            T=[float(T[i]), float(T[i + 1])], y=[float(y[i]), float(y[i + 1])])
    # (2) equals the base load between the balance points ------------------------------------------
    lo = H if (H is not None and bh != 0) else (-np.inf if H is None or bh == 0 else H)
    hi = C if (C is not None and bc != 0) else np.inf
    if H is None or bh == 0:
        lo = -np.inf
    eps_T = 1e-9 * np.maximum(1.0, np.abs(T))             # the effective balance points are themselves rounded (they coincide when hdd_k + cdd_k >= 1)
    between = (T > lo + eps_T) & (T < hi - eps_T)
    single = coef["model_type"] in ("hdd_tidd", "hdd_tidd_smooth", "tidd_cdd", "tidd_cdd_smooth")
    if single or bh == 0 or bc == 0:
        between &= (T >= tc["T_min"]) & (T <= tc["T_max"])      # other side: judged inside the fitted range only
    if between.any():
        I.reach("clause.between_flat")
        bad = between & (y != b0)
        if bad.any():
            i = int(np.argmax(bad))
            add("not-base-load-between-balance-points" + _where(T[i], coef, tc),
                "prediction %.9g != intercept %.9g at T=%r strictly between the balance points (%r, %r)" % (y[i], b0, T[i], lo, hi),
                T=float(T[i]), y=float(y[i]), n=int(bad.sum()))
    # (3) monotone ------------------------------------------------------------------------------------
    I.reach("clause.monotone")
    if H is not None and bh != 0:
        m = T[1:] <= H
        bad = m & (dy > 16 * np.spacing(scale))
        if bad.any():
            i = int(np.argmax(bad))
            add("not-monotone-heating" + _where(T[i], coef, tc), "usage rises by %.3g as it gets warmer below the heating balance point (T=%r..%r)" % (dy[i], T[i], T[i + 1]))
    if C is not None and bc != 0:
        m = T[:-1] >= C
        bad = m & (dy < -16 * np.spacing(scale))
        if bad.any():
            i = int(np.argmax(bad))
            add("not-monotone-cooling" + _where(T[i], coef, tc), "usage falls by %.3g as it gets hotter above the cooling balance point (T=%r..%r)" % (dy[i], T[i], T[i + 1]))
    # (4) straight line with the fitted slope beyond each balance point ---------------------------------
    for side, bp, beta, k in (("heating", H, bh, kh), ("cooling", C, bc, kc)):
        if bp is None or beta == 0:
            continue
        m = (T < bp) if side == "heating" else (T > bp)
        if not m.any():
            continue
        d = np.abs(T[m] - bp)
        line = b0 + beta * d
        if k == 0:
            I.reach("clause.exact_line")
            err = np.abs(y[m] - line)
            bad = err > 8 * np.spacing(np.maximum(np.abs(line), scale))
            if bad.any():
                i = int(np.argmax(err))
                Tb = T[m][i]
                add("not-the-fitted-line-%s" % side + _where(Tb, coef, tc),
                    "unsmoothed %s side: prediction %.12g != intercept+slope*|T-bp| = %.12g at T=%r (bp %r slope %r)" % (side, y[m][i], line[i], Tb, bp, beta),
                    T=float(Tb), n=int(bad.sum()))
        else:
            far = d > 40 * k
            if far.sum() >= 2:
                I.reach("clause.asymptote")
                # far field: within |beta*k| of the line through the *unshifted* balance point and parallel to it
                asym = b0 + beta * d - beta * k
                err = np.abs(y[m][far] - asym[far])
                if (err > 1e-9 * max(scale, beta * k) + 8 * np.spacing(scale)).any():
                    i = int(np.argmax(err))
                    add("smoothed-far-field-not-the-fitted-line-%s" % side + _where(T[m][far][i], coef, tc),
                        "smoothed %s side does not converge to the line with the fitted slope: off by %.6g at |T-bp|=%.4g (k=%.4g)" % (side, err[i], d[far][i], k))
            # bounded between the shifted and the unshifted line everywhere
            off = y[m] - (b0 + beta * d)
            if ((off > 8 * np.spacing(scale)) | (off < -beta * k - 8 * np.spacing(max(scale, beta * k)))).any():
                i = int(np.argmax(np.abs(off)))
                add("smoothed-curve-outside-its-envelope-%s" % side + _where(T[m][i], coef, tc),
                    "smoothed %s side leaves the band between the fitted line and its shifted copy (off %.6g, k*beta %.6g)" % (side, off[i], beta * k))
    # (5) loads -----------------------------------------------------------------------------------------
    I.reach("clause.loads")
    ltol = 8 * np.spacing(scale)
    if (h < -ltol).any() or (c < -ltol).any():
        neg = (h < -ltol) | (c < -ltol)
        i = int(np.argmax(neg))
        add("negative-load" + _where(T[i], coef, tc), "negative %s load %.6g at T=%r" % ("heating" if h[i] < 0 else "cooling", min(h[i], c[i]), T[i]),
            T=float(T[i]), n=int(neg.sum()))
    both = (h != 0) & (c != 0)
    if both.any():
        i = int(np.argmax(both))
        add("both-loads-nonzero" + _where(T[i], coef, tc), "heating %.6g and cooling %.6g both non-zero at T=%r" % (h[i], c[i], T[i]), n=int(both.sum()))
    s = b0 + h + c
    bad = np.abs(s - y) > 4 * np.spacing(np.maximum(np.abs(y), abs(b0)))
    if bad.any():
        i = int(np.argmax(np.abs(s - y)))
        add("loads-do-not-add-up" + _where(T[i], coef, tc), "intercept+heating+cooling = %.17g but predicted = %.17g at T=%r" % (s[i], y[i], T[i]), n=int(bad.sum()))


def _where(t, coef, tc):
    """mechanism suffix: where on the temperature axis the witness lies relative to the fitted range and the
    declared balance points (deterministic classifier used to key known findings)."""
    tags = []
    if t > tc["T_max"]:
        tags.append("T>T_max")
    elif t < tc["T_min"]:
        tags.append("T<T_min")
    else:
        tags.append("in-range")
    for name in ("hdd_bp", "cdd_bp"):
        v = coef.get(name)
        if v is None:
            continue
        if v >= tc["T_max"]:
            tags.append(name + ">=T_max")
        elif v <= tc["T_min"]:
            tags.append(name + "<=T_min")
        elif v > tc["T_max_seg"]:
            tags.append(name + ">T_max_seg")
        elif v < tc["T_min_seg"]:
            tags.append(name + "<T_min_seg")
    return ":" + coef["model_type"] + ":" + ",".join(tags)


def submodel_post(self, submodel, T, result):
    I.reach("post.predict_submodel")
    if CUR.get("judge"):
        model, f_unc, h, c = result
        order = np.argsort(T, kind="stable")
        judge(CUR["coef"], CUR["tc"], np.asarray(T, float)[order], np.asarray(model)[order], np.asarray(h)[order], np.asarray(c)[order])
        if not np.all(np.asarray(f_unc) == submodel.f_unc):
            add("f_unc-not-constant", "uncertainty column is not the stored f_unc")
    return True


def kernel_pre(a, k):
    hdd_bp, hdd_beta, hdd_k, cdd_bp, cdd_beta, cdd_k, intercept, bnds = a[:8]
    if hdd_beta == 0 and cdd_beta == 0:
        I.reach("regime.flat")
        return
    if cdd_bp < hdd_bp:
        I.reach("regime.swapped")
    if hdd_bp == cdd_bp and cdd_bp >= bnds[1]:
        I.reach("regime.equal_bp_at_Tmax")
    elif hdd_bp == cdd_bp and hdd_bp <= bnds[0]:
        I.reach("regime.equal_bp_at_Tmin")
    elif hdd_bp == cdd_bp:
        I.reach("regime.equal_bp_inside")
    if hdd_k != 0 or cdd_k != 0:
        I.reach("regime.smoothed")
    else:
        I.reach("regime.plain")


_done = False


def setup_worker():
    global _done
    if _done:
        return
    import icontract
    import opendsm.eemeter as em
    import opendsm.eemeter.models.daily.model as DM
    orig = DM.DailyModel._predict_submodel
    DM.DailyModel._predict_submodel = icontract.ensure(submodel_post, error=ContractBroken)(orig)
    I.wrap(DM, "full_model", pre=kernel_pre, everywhere=False)
    _done = True


GRID = np.round(np.arange(-60, 140.0001, 0.05), 2)


def temps_for(coef, tc, rng):
    e = F.effective(coef)
    sp = [tc["T_min"], tc["T_max"], tc["T_min_seg"], tc["T_max_seg"], -60.0, 140.0]
    for v in (coef.get("hdd_bp"), coef.get("cdd_bp"), e["H"], e["C"]):
        if v is not None and -60 <= v <= 140:
            sp += [v, float(np.nextafter(v, np.inf)), float(np.nextafter(v, -np.inf)), v + 1e-9, v - 1e-9]
    sp = [float(min(140.0, max(-60.0, s))) for s in sp]
    sp = (sp + [float(x) for x in rng.uniform(-60, 140, 40)])[:40]
    return np.unique(np.concatenate([GRID, np.array(sp, float)]))


def gen_cases(tier, seed):
    q = tier == "quick"
    cases = [dict(kind="vectors", n=25 if q else 50, batch=b) for b in range(32 if q else 400)]
    cases += [dict(kind="vectors", n=100 if q else 200, batch=10000 + b, fully_smoothed=True) for b in range(32 if q else 160)]
    cases += [dict(kind="vectors", n=25 if q else 50, batch=20000 + b, reversed=True) for b in range(16 if q else 100)]
    if not q:
        cases.append(dict(kind="kernel-diff", n=300, batch=0, timeout=2400))
    return cases


def _predict_cols(model, T, tz="UTC"):
    idx = pd.date_range("2001-01-01", periods=len(T), freq="D", tz=tz)
    df = pd.DataFrame({"temperature": T}, index=idx)
    return df


def run_case(spec):
    import opendsm.eemeter as em
    rng = rng_for(spec["seed"], ID, spec["batch"], 0 if spec["kind"] == "vectors" else 1)
    del VIOL[:]
    keys, hist = set(), {"shape": {}, "bound_hit": {}}
    if spec["kind"] == "kernel-diff":
        return _kernel_diff(spec, rng)
    settings = B.settings_dump("current")
    for it in range(spec["n"]):
        shape = B.SHAPES[int(rng.integers(0, 7))] if it % 8 else B.SHAPES[it // 8 % 7]
        tc = B.draw_tc(rng)
        if spec.get("fully_smoothed"):
            shape = "hdd_tidd_cdd_smooth"
        coef = B.draw_coefficients(rng, shape, tc, reversed_p=0.5 if spec.get("reversed") else 0.0)
        if coef.get("hdd_bp") is not None and coef.get("cdd_bp") is not None and coef["hdd_bp"] > coef["cdd_bp"]:
            I.reach("document.balance_points_in_reversed_order")
        if spec.get("fully_smoothed"):
            # dead band smoothed from both sides up to and beyond its width: percent-k sum at 1, one ulp around it, and well above 1
            # (the library rescales the pair; the shifted balance points then coincide up to rounding)
            a = float(rng.uniform(0.05, 1.0))
            q = rng.random()
            b = 1.0 - a if q < 0.1 else float(np.nextafter(1.0 - a, 2.0)) if q < 0.2 else float(rng.uniform(max(0.0, 1.0 - a), 1.0))
            coef["hdd_k"], coef["cdd_k"] = (a, b) if rng.random() < 0.5 else (b, a)
            if coef["hdd_beta"] == coef["cdd_beta"]:
                coef["cdd_beta"] = coef["hdd_beta"] * 2.5
            I.reach("regime.percent_k_sum_at_or_above_one")
        doc = B.make_doc({"fw-su_sh_wi": dict(coefficients=coef, temperature_constraints=tc, f_unc=float(rng.uniform(0.1, 5)))}, settings)
        m = em.DailyModel.from_dict(doc)
        T = temps_for(coef, tc, rng) if not spec.get("fully_smoothed") else temps_for(coef, tc, rng)[::20]
        rng.shuffle(T)              # a reporting year is not sorted by temperature
        CUR.update(coef=coef, tc=tc, judge=True)
        before = dict(I.REACH)
        df = _predict_cols(m, T)
        if it % 5 == 0:
            rd = em.DailyReportingData(df, is_electricity_data=True)
            out = m.predict(rd)
            I.reach("boundary.predict")
        else:
            out = m._predict(df)
        CUR["judge"] = False
        # boundary observation: the returned columns are what the post-condition judged
        o = out.sort_index()
        if len(o) != len(T) or not np.array_equal(o["temperature"].to_numpy(), T):
            add("boundary-rows", "predict() rows do not match the temperatures supplied")
        else:
            order = np.argsort(T, kind="stable")
            judge_cols = (o["predicted"].to_numpy()[order], o["heating_load"].to_numpy()[order], o["cooling_load"].to_numpy()[order])
            # same clauses at the boundary (cheap re-check of additivity and sign on the user-visible frame)
            y, h, c = judge_cols
            if (h < 0).any() or (c < 0).any() or ((h != 0) & (c != 0)).any():
                pass  # already reported by the post-condition with its classifier
            if (o["model_type"] != shape).any():
                add("model-type-column", "model_type column %r != declared %r" % (o["model_type"].iloc[0], shape))
        if it % 2 == 0 and len(o) == len(T):
            # the curve is a FUNCTION of temperature: the same document evaluated again (same object, a second object built from the same
            # document, other call order, point by point) gives the same value at the same temperature; every one of these evaluations is
            # judged by the post-condition as well
            CUR["judge"] = True
            first = dict(zip(o["temperature"].to_numpy().tolist(), zip(o["predicted"].to_numpy().tolist(), o["heating_load"].to_numpy().tolist(), o["cooling_load"].to_numpy().tolist())))
            sub = T[:: max(1, len(T) // 200)].copy()
            m2 = em.DailyModel.from_dict(doc)
            for who, mm, tt in (("same-object", m, sub[::-1].copy()), ("second-object-from-the-same-document", m2, sub), ("same-object-point-by-point", m, sub[:3])):
                if who.endswith("point-by-point"):
                    outs = [mm._predict(_predict_cols(mm, np.array([t_]))) for t_ in tt]
                    o2 = pd.concat(outs)
                else:
                    o2 = mm._predict(_predict_cols(mm, tt))
                I.reach("repeat.evaluations_compared")
                bad = [(t_, first[t_], (y_, h_, c_)) for t_, y_, h_, c_ in zip(o2["temperature"].to_numpy().tolist(), o2["predicted"].to_numpy().tolist(),
                                                                      o2["heating_load"].to_numpy().tolist(), o2["cooling_load"].to_numpy().tolist())
                       if t_ in first and not all((a_ == b_) or (a_ != a_ and b_ != b_) for a_, b_ in zip(first[t_], (y_, h_, c_)))]
                if bad:
                    add("value-at-a-temperature-depends-on-earlier-evaluations:%s:%s" % (shape, who),
                        "%d of %d temperatures: e.g. T=%r first evaluation %r, %s evaluation %r" % (len(bad), len(o2), bad[0][0], bad[0][1], who, bad[0][2]))
            # the temperature column as feeds deliver it: whole degrees in an integer column, float32 - the curve is the same function of the value
            Ti = np.unique(np.round(sub).astype(np.int64))
            ref64 = m._predict(_predict_cols(m, Ti.astype(np.float64))).sort_index()
            for dt_ in (np.int64, np.int32, np.float32):
                od = m._predict(_predict_cols(m, Ti.astype(dt_))).sort_index()
                I.reach("repeat.other_temperature_dtype_compared")
                for col in ("predicted", "heating_load", "cooling_load"):
                    a_, b_ = ref64[col].to_numpy(dtype=float), od[col].to_numpy(dtype=float)
                    if len(a_) != len(b_) or not I.bits_equal(a_, b_):
                        j_ = int(np.argmax(a_ != b_)) if len(a_) == len(b_) else 0
                        add("value-depends-on-the-dtype-of-the-temperature-column:%s:%s:%s" % (shape, np.dtype(dt_).name, col),
                            "T=%r: %s is %r with float64 temperatures and %r with %s temperatures" % (Ti[j_], col, a_[j_], b_[j_] if len(b_) > j_ else None, np.dtype(dt_).name))
                        break
            CUR["judge"] = False
        regimes = sorted(k for k in I.REACH if k.startswith("regime.") and I.REACH[k] > before.get(k, 0))
        hit = _where(0.0, coef, tc).split(":")[-1].replace("in-range", "").strip(",")
        hist["shape"][shape] = hist["shape"].get(shape, 0) + 1
        hist["bound_hit"][hit or "interior"] = hist["bound_hit"].get(hit or "interior", 0) + 1
        e = F.effective(coef)
        if e["bh"] or e["bc"]:
            keys.add("%s|%s|%s|%d" % (shape, ",".join(regimes), hit, spec["batch"] * 1000 + it))
    # ---- models imported from legacy (2.0) documents: the same clauses, and the 2.0 formula itself -----------------------------------
    for j in range(max(2, spec["n"] // 12)):
        kind2 = B.KINDS_2_0[(spec["batch"] + j) % 4]
        doc2 = B.draw_2_0_doc(rng, kind2)
        m = em.DailyModel.from_2_0_dict(doc2) if j % 2 else em.DailyModel.from_2_0_json(json.dumps(doc2))
        sub = m.params.submodels["fw-su_sh_wi"]
        coef = {k_: (getattr(v_, "value", v_)) for k_, v_ in sub.coefficients.model_dump().items()}
        tc = dict(sub.temperature_constraints)
        T = np.round(np.concatenate([rng.uniform(-60, 140, 400), [doc2["model_params"].get("heating_balance_point", 50.0), doc2["model_params"].get("cooling_balance_point", 65.0)]]), 3)
        CUR.update(coef=coef, tc=tc, judge=True)
        out = m._predict(_predict_cols(m, T)).sort_index()
        CUR["judge"] = False
        I.reach("document.imported_from_2_0")
        ey, eh, ec = B.eval_2_0(doc2, out["temperature"].to_numpy(dtype=float))
        for col, exp in (("predicted", ey), ("heating_load", eh), ("cooling_load", ec)):
            got = out[col].to_numpy(dtype=float)
            bad = np.abs(got - exp) > 4 * np.spacing(np.maximum(np.abs(exp), abs(doc2["model_params"]["intercept"])))
            if bad.any():
                i_ = int(np.argmax(bad))
                add("imported-2.0-model-differs-from-its-formula:%s:%s" % (kind2, col), "T=%r: %s %r, 2.0 formula %r" % (out["temperature"].iloc[i_], col, got[i_], exp[i_]))
                break
        hist["shape"]["2.0:" + kind2] = hist["shape"].get("2.0:" + kind2, 0) + 1
    seen, kept = {}, []
    for v in VIOL:
        seen[v["mech"]] = seen.get(v["mech"], 0) + 1
        if seen[v["mech"]] <= 2:
            kept.append(dict(v))
    return dict(viol=kept, reach=I.take_reach(), keys=sorted(keys), hist=hist, events=spec["n"])


# ---------------------------------------------------------------------------------------------------
# numba "sanitizer" builds: bounds-checked JIT and interpreted kernels vs the normal JIT (thorough)
# ---------------------------------------------------------------------------------------------------
KERNEL_SCRIPT = r'''
import sys, json, numpy as np, warnings, logging
warnings.simplefilter("ignore"); logging.disable(logging.CRITICAL)
import pandas as pd
import opendsm.eemeter as em
docs = json.load(open(sys.argv[1]))
out = []
for d in docs:
    m = em.DailyModel.from_dict(d["doc"])
    T = np.array(d["T"], float)
    idx = pd.date_range("2001-01-01", periods=len(T), freq="D", tz="UTC")
    o = m._predict(pd.DataFrame({"temperature": T}, index=idx)).sort_index()
    out.append(np.stack([o["predicted"].to_numpy(), o["heating_load"].to_numpy(), o["cooling_load"].to_numpy()]))
np.save(sys.argv[2], np.stack(out))
'''


def _kernel_diff(spec, rng):
    from vf import boot
    settings = B.settings_dump("current")
    docs = []
    T = np.concatenate([np.arange(-60, 140.01, 0.5), rng.uniform(-60, 140, 99)])
    smooth_flags, scales = [], []
    for it in range(spec["n"]):
        shape = B.SHAPES[it % 7]
        tc = B.draw_tc(rng)
        coef = B.draw_coefficients(rng, shape, tc)
        smooth_flags.append(shape.endswith("smooth"))
        e = F.effective(coef)
        scales.append(abs(e["b0"]) + (e["bh"] + e["bc"]) * (200.0 + e["kh"] + e["kc"]))   # size of the intermediates
        docs.append(dict(doc=B.make_doc({"fw-su_sh_wi": dict(coefficients=coef, temperature_constraints=tc)}, settings), T=T.tolist()))
    tmp = tempfile.mkdtemp(prefix="c11k_", dir=os.path.join(boot.ROOT, ".cache"))
    res, viol = {}, []
    try:
        json.dump(docs, open(os.path.join(tmp, "docs.json"), "w"))
        open(os.path.join(tmp, "k.py"), "w").write(KERNEL_SCRIPT)
        for name, env in (("jit", {}), ("boundscheck", {"NUMBA_BOUNDSCHECK": "1", "NUMBA_CACHE_DIR": os.path.join(boot.CACHE, "numba_bc")}),
                          ("interpreted", {"NUMBA_DISABLE_JIT": "1"})):
            e = boot.worker_env(env)
            r = subprocess.run([boot.PY, os.path.join(tmp, "k.py"), os.path.join(tmp, "docs.json"), os.path.join(tmp, name + ".npy")],
                               env=e, capture_output=True, text=True, timeout=1800)
            if r.returncode != 0:
                viol.append(dict(mech="kernel-build-%s-failed" % name, what="the %s build of the kernels raised: %s" % (name, r.stderr[-600:])))
                continue
            res[name] = np.load(os.path.join(tmp, name + ".npy"))
        reach = {}
        if "jit" in res and "boundscheck" in res:
            if I.bits_equal(res["jit"].ravel(), res["boundscheck"].ravel()):
                reach["kernel.boundscheck_equal"] = 1
            else:
                viol.append(dict(mech="kernel-boundscheck-differs", what="bounds-checked JIT build differs from the normal JIT build"))
        if "jit" in res and "interpreted" in res:
            a, b = res["jit"], res["interpreted"]
            ok = True
            for i, sm in enumerate(smooth_flags):
                if sm:
                    tol = 4 * np.spacing(np.maximum(np.abs(a[i]), max(scales[i], 1e-300)))   # LLVM exp vs libm exp: ulps of the intermediates
                    if not (np.abs(a[i] - b[i]) <= tol).all():
                        ok = False
                        viol.append(dict(mech="kernel-interpreted-differs", what="interpreted kernel differs from JIT beyond 4 ulp of the intermediates (smoothed) for vector %d: %r" % (i, float(np.abs(a[i] - b[i]).max()))))
                        break
                elif not I.bits_equal(a[i].ravel(), b[i].ravel()):
                    ok = False
                    viol.append(dict(mech="kernel-interpreted-differs", what="interpreted kernel differs from JIT bit-wise (unsmoothed) for vector %d" % i))
                    break
            if ok:
                reach["kernel.interpreted_equal"] = 1
    finally:
        import shutil
        shutil.rmtree(tmp, ignore_errors=True)
    return dict(viol=viol, reach=reach, keys=["kernel-diff"], hist={}, events=3 * spec["n"])
