"""C19 — billing aggregation of predictions conserves totals.

Three real BillingModel.predict calls per case (None, "monthly", "bimonthly") on pristine model copies;
the aggregated frames are compared with a pure-Python regrouping of the daily frame by calendar
month / two-month bins; argument validation is probed with accepted and rejected values."""
import copy
import math

import numpy as np
import pandas as pd

from vf import instrument as I
from vf import dailybuild as B
from vf import fits as FT
from vf.gen import rng_for

ID = "C19"
TECHNIQUE = 'runtime monitoring: conservation checker: every aggregated frame of the real BillingModel.predict compared with sums / root-sum-squares / means of its own daily rows per local calendar period'
LEVEL = "exploration"
CASE_TIMEOUT = 1500
RULE = ("billing models (fitted on generated monthly/bi-monthly reads; parameter-built for every split layout) x reporting sets with any "
        "start day, partial first/last months, temperature gaps, with/without observed, several zones x aggregation arguments "
        "{None,'none','NONE','monthly','bimonthly'} accepted and {'Monthly','weekly',3,'','MS','bi-monthly'} rejected.  "
        "distinct_nontrivial = distinct (model source, split, zone, start day, span, gap pattern, observed?) reporting sets spanning >= 2 periods.")
ASSUMPTIONS = ["a calendar period is a local calendar month; bi-monthly bins are pairs of months anchored at the first month of the reporting data",
               "sums/means skip missing daily values; a period with no finite value may be reported as 0 or missing"]
REQUIRED_REACH = {"agg.monthly.judged": 20, "agg.bimonthly.judged": 20, "clause.totals": 20, "arg.rejected": 40, "arg.accepted": 40,
                  "rows.compared": 300, "without_observed": 3, "data.gas_months_with_zero_usage": 8, "history.data_object_used_by_another_model_before": 20}

VIOL = []
CUR = {}


def add(mech, what, **kw):
    if sum(1 for v in VIOL if v["mech"] == mech) < 3:
        VIOL.append(dict(mech=mech, what=what, ctx=dict(CUR), **kw))


def close(a, b, scale):
    if a is None or b is None:
        return a is None and b is None
    if isinstance(a, float) and math.isnan(a):
        return isinstance(b, float) and math.isnan(b)
    return abs(a - b) <= 1e-9 * max(abs(scale), abs(a), abs(b), 1e-12)


def regroup(daily, width):
    """pure-Python grouping of the daily rows by (year, month) bins of `width` months anchored at the first month"""
    rows = []
    y0, m0 = None, None
    for ts, r in zip(daily.index, daily.to_dict("records")):
        y, m = ts.year, ts.month
        if y0 is None:
            y0, m0 = y, m
        b = ((y * 12 + m) - (y0 * 12 + m0)) // width
        rows.append((b, r))
    nb = rows[-1][0] + 1
    out = []
    for b in range(nb):
        grp = [r for (bb, r) in rows if bb == b]
        start = (y0 * 12 + (m0 - 1) + b * width)
        label = (start // 12, start % 12 + 1)

        def fin(col):
            return [float(r[col]) for r in grp if col in r and r[col] is not None and isinstance(r[col], (int, float, np.floating)) and math.isfinite(float(r[col]))]
        d = {"label": label, "n": len(grp)}
        for col in ("predicted", "observed", "heating_load", "cooling_load"):
            v = fin(col)
            d[col] = math.fsum(v) if v else None
        v = fin("temperature")
        d["temperature"] = math.fsum(v) / len(v) if v else None
        v = fin("predicted_unc")
        d["predicted_unc"] = math.sqrt(math.fsum(x * x for x in v)) if v else None
        out.append(d)
    return out


def judge_agg(daily, aggf, width, name):
    I.reach("agg.%s.judged" % name)
    ref = regroup(daily, width)
    if len(aggf) != len(ref):
        add("aggregate-row-count:" + name, "%s aggregate has %d rows for %d calendar periods" % (name, len(aggf), len(ref)))
        return
    scale = float(np.nanmax(np.abs(daily["predicted"].to_numpy(dtype=float)))) * 31 * width if np.isfinite(daily["predicted"].to_numpy(dtype=float)).any() else 1.0
    for ts, (_, row), r in zip(aggf.index, aggf.iterrows(), ref):
        I.reach("rows.compared")
        if (ts.year, ts.month) != r["label"] or ts.day != 1 or ts.hour != 0:
            add("aggregate-label:" + name, "row labelled %s, expected the start of calendar period %r" % (ts, r["label"]))
            continue
        for col in ("predicted", "observed", "heating_load", "cooling_load", "temperature", "predicted_unc"):
            if col not in aggf.columns:
                if col == "observed" and "observed" not in daily.columns:
                    continue
                add("aggregate-column-missing:" + col, "column %s missing from the %s aggregate" % (col, name))
                continue
            got = float(row[col]) if row[col] is not None else float("nan")
            exp = r[col]
            if exp is None:
                if not (math.isnan(got) or got == 0.0):
                    add("aggregate-value-invented:" + col, "%s of period %r has no finite daily value but the aggregate is %r" % (col, r["label"], got))
                continue
            if not close(got, exp, scale if col not in ("temperature",) else 100.0):
                how = {"temperature": "mean", "predicted_unc": "root-sum-square"}.get(col, "sum")
                add("aggregate-not-%s-of-daily-rows:%s:%s" % (how, col, name), "%s of period %r is %r, the %s of its %d daily rows is %r" % (col, r["label"], got, how, r["n"], exp), col=col)


_done = False


def setup_worker():
    global _done
    _done = True


ACCEPT = [None, "none", "NONE", "None", "monthly", "bimonthly"]
REJECT = ["Monthly", "weekly", 3, "", "MS", "bi-monthly", "MONTHLY", "month", 2.0, ["monthly"]]


def gen_cases(tier, seed):
    q = tier == "quick"
    splits = B.all_split_strings()
    zones = ["America/Chicago", "UTC", "Australia/Sydney", "Europe/London", "Asia/Kolkata", "America/Los_Angeles", "Pacific/Auckland", "Asia/Tokyo",
             "Europe/Berlin", "America/Sao_Paulo", "America/Phoenix", "Africa/Johannesburg"]
    cases = []
    for i in range(5 if q else 40):
        cases.append(dict(kind="fitted", tz=zones[i % (4 if q else 12)], bimonthly=bool(i % 3 == 2), n=i, timeout=1500))
    for i in range(30 if q else 400):
        cases.append(dict(kind="param", tz=zones[i % (4 if q else 12)], split=splits[i % len(splits)], n=1000 + i))
    return cases


def run_case(spec):
    import opendsm.eemeter as em
    rng = rng_for(spec["seed"], ID, spec["n"])
    del VIOL[:]
    CUR.clear()
    tz = spec["tz"]
    CUR.update(kind=spec["kind"], tz=tz, split=spec.get("split"), n=spec["n"])
    keys = set()
    if spec["kind"] == "fitted":
        m, _, _ = FT.fit_billing(rng, tz=tz, cycle=(56, 64) if spec["bimonthly"] else (28, 33), n_periods=7 if spec["bimonthly"] else 13)
    else:
        st = B.settings_dump("billing")
        st["developer_mode"] = True
        subs = {}
        for comp in spec["split"].split("__"):
            tc = B.draw_tc(rng)
            subs[comp] = dict(coefficients=B.draw_coefficients(rng, B.SHAPES[int(rng.integers(0, 7))], tc, edge_p=0.1), temperature_constraints=tc,
                              f_unc=float(rng.uniform(0.5, 3)))
        m = em.BillingModel.from_dict(B.make_doc(subs, st, tz=tz))
    nsets = 3
    for k in range(nsets):
        start = str((pd.Timestamp("2019-01-01") + pd.Timedelta(days=int(rng.integers(0, 730)))).date())
        n = int(rng.choice([20, 45, 100, 250, 366, 500]))
        with_obs = bool(rng.random() < 0.7)
        gaps = str(rng.choice(["none", "isolated", "run", "month"]))
        df = FT.daily_reporting_df(rng, tz, start, n, with_observed=with_obs, temp_nan=0.05 if gaps == "isolated" else 0.0, run=int(rng.integers(3, 40)) if gaps == "run" else None)
        if gaps == "month":
            mm = int(df.index.month[int(rng.integers(0, n))])
            df.loc[df.index.month == mm, "temperature"] = np.nan
        gas = bool(k == 1 and with_obs)
        if gas:
            # a non-electric meter with calendar months of zero usage (a summer gas account): a total of 0 is a total
            for mz in rng.choice(np.unique(df.index.month.values), size=min(2, len(np.unique(df.index.month.values))), replace=False):
                df.loc[df.index.month == int(mz), "observed"] = 0.0
            I.reach("data.gas_months_with_zero_usage")
        CUR.update(start=start, days=n, with_observed=with_obs, gaps=gaps, gas=gas)
        data = em.BillingReportingData(df, is_electricity_data=not gas)
        if k != 2:
            # the same data object was used by ANOTHER billing model before (a portfolio run: several candidate models on one reporting set);
            # what this model returns for it is its own
            st_o = B.settings_dump("billing")
            st_o["developer_mode"] = True
            tc_o = B.draw_tc(rng)
            m_other = em.BillingModel.from_dict(B.make_doc({"fw-su_sh_wi": dict(coefficients=B.draw_coefficients(rng, B.SHAPES[int(rng.integers(0, 7))], tc_o, edge_p=0.1),
                                                                             temperature_constraints=tc_o, f_unc=float(rng.uniform(3, 9)))}, st_o, tz=tz))
            for arg_o in ("monthly", "bimonthly", None):
                try:
                    m_other.predict(data, aggregation=arg_o, ignore_disqualification=True)
                except Exception:
                    pass
            I.reach("history.data_object_used_by_another_model_before")
        frames = {}
        for arg in ACCEPT:
            mm_ = copy.deepcopy(m)
            try:
                frames[repr(arg)] = mm_.predict(data, aggregation=arg, ignore_disqualification=True)
                I.reach("arg.accepted")
            except Exception as e:
                where = "no-observed-column" if ("None" in frames and "observed" not in frames["None"].columns) else "observed-column-present"
                add("valid-aggregation-argument-failed:%s:%s:%s" % (type(e).__name__, "aggregated" if arg in ("monthly", "bimonthly") else "daily", where),
                    "predict(aggregation=%r) raised %s: %s" % (arg, type(e).__name__, str(e)[:160]))
        for arg in REJECT:
            try:
                copy.deepcopy(m).predict(data, aggregation=arg, ignore_disqualification=True)
                add("invalid-aggregation-argument-accepted", "predict(aggregation=%r) was accepted" % (arg,))
            except Exception:
                I.reach("arg.rejected")
        if not with_obs:
            I.reach("without_observed")
        daily = frames.get("None")
        if daily is None:
            continue
        if len(daily) == 0:
            I.reach("daily_frame_empty")
            continue
        for alt in ("'none'", "'NONE'", "'None'"):
            if alt in frames and I.frame_equal_bits(daily, frames[alt]):
                add("none-variants-differ", "aggregation=%s differs from aggregation=None" % alt)
        for name, width in (("monthly", 1), ("bimonthly", 2)):
            if repr(name) in frames:
                judge_agg(daily, frames[repr(name)], width, name)
        # totals identical at every level
        tot = {}
        for name in ("None", "'monthly'", "'bimonthly'"):
            if name in frames:
                f = frames[name]
                tot[name] = {c: float(np.nansum(f[c].to_numpy(dtype=float))) for c in ("predicted", "observed", "heating_load", "cooling_load") if c in f.columns}
        if len(tot) == 3:
            I.reach("clause.totals")
            for c in tot["None"]:
                vals = [tot[k].get(c) for k in tot]
                if None in vals or max(vals) - min(vals) > 1e-9 * max(abs(max(vals)), abs(min(vals)), 1e-9):
                    add("totals-differ-across-aggregation-levels:" + c, "total %s: daily %r monthly %r bimonthly %r" % (c, *vals))
        if n > 62:
            keys.add("%s|%s|%s|%s|%d|%s|%s" % (spec["kind"], spec.get("split"), tz, start, n, gaps, with_obs))
    return dict(viol=[dict(v) for v in VIOL], reach=I.take_reach(), keys=sorted(keys), hist={"kind": spec["kind"], "zone": tz}, events=nsets * (len(ACCEPT) + len(REJECT)))
