"""C01 — a stored model reproduces its counterfactual exactly.

Boundary monitors on to_dict/to_json/from_dict/from_json/predict of the four model families:
  (1) from_json(to_json(m)).predict(data) is compared bit for bit (every column, index, dtype) with
      m.predict(data) on several reporting sets, also for the second generation (js -> model -> js -> model);
  (2) from_json(js).to_json() == js (string) for every generation;
  (3) baseline timezone, warnings and disqualifications survive;
  (4) daily/billing: every predicted value equals the documented piecewise formula evaluated from the
      JSON numbers alone (vf/oracle/daily_formula.py, sub-model routed by the JSON split key and the
      JSON season/weekday maps), for parameter-built models of every shape/layout and for fitted ones."""
import copy
import json
import math

import numpy as np
import pandas as pd

from vf import instrument as I
from vf import dailybuild as B
from vf import fits as FT
from vf.gen import rng_for
from vf.oracle import daily_formula as F

ID = "C01"
TECHNIQUE = 'runtime monitoring: differential monitor at the API boundary (predict before vs after to_json/from_json, bit-exact, one and two generations, re-used model objects) + independent formula oracle evaluated from the JSON document alone on every predicted row'
LEVEL = "exploration"
CASE_TIMEOUT = 3000
RULE = ("parameter-built daily/billing models: 7 shapes x every exact-cover split string x coefficient draws inside the final-fit box, predicted on "
        "temperature sweeps -60..140F over dates of a leap year (formula oracle + document round trip); fitted models of every family/profile "
        "(daily current/legacy/developer/custom maps, billing monthly and bi-monthly, hourly solar/non-solar/developer profiles, CalTRACK hourly), "
        "baselines with warnings and (overridden) disqualifications, each predicted on reporting sets inside/outside the fitted range, with gaps, "
        "with/without usage, single day..year, before and after one and two JSON round trips.  distinct_nontrivial = distinct (family, profile, "
        "split/model types, reporting set class) comparisons on models with at least one temperature-dependent component.")
ASSUMPTIONS = ["two JSON documents are the same when they parse to equal values (12 and 12.0 are the same number)", "formula tolerance 1e-9*max(1,|y|): libm exp vs LLVM exp and re-association; everything else is compared bit for bit",
               "parameter-built documents keep balance points inside [T_min_seg, T_max_seg] (documents outside that box are the C11 finding)",
               "warnings/disqualifications are compared by their json() form"]
REQUIRED_REACH = {"roundtrip.predict_compared": 40, "roundtrip.rejson_compared": 12, "roundtrip.metadata_compared": 5, "formula.rows_compared": 12000,
                  "formula.models": 40, "second_generation": 6, "model_object_reused": 3, "family.daily": 2, "family.billing": 1, "family.hourly": 14, "family.caltrack": 1, "baseline.calendar_month_without_meter_data": 3, "baseline.zone_object_that_is_not_an_iana_name": 4}

VIOL = []
CUR = {}


def add(mech, what, **kw):
    if sum(1 for v in VIOL if v["mech"] == mech) < 3:
        VIOL.append(dict(mech=mech, what=what, family=CUR.get("family"), **kw))


# ---------------------------------------------------------------------------------------------------
def formula_check(doc, p, label):
    """p: frame returned by predict(); doc: the JSON document (dict)."""
    st = doc["settings"]
    months = ["january", "february", "march", "april", "may", "june", "july", "august", "september", "october", "november", "december"]
    days = ["monday", "tuesday", "wednesday", "thursday", "friday", "saturday", "sunday"]
    short = {"summer": "su", "shoulder": "sh", "winter": "wi"}
    season_of = {i + 1: short[str(st["season"][m]).lower()] for i, m in enumerate(months)}
    day_of = {i: ("wd" if str(st["weekday_weekend"][d]).lower() == "weekday" else "we") for i, d in enumerate(days)}
    owner = {}
    for key in doc["submodels"]:
        dd, seasons = key[:2], key[3:].split("_")
        for s in seasons:
            for d in (["wd", "we"] if dd == "fw" else [dd]):
                owner[(s, d)] = key
    T = p["temperature"].to_numpy(dtype=float)
    y = p["predicted"].to_numpy(dtype=float)
    n_bad = 0
    I.reach("formula.models")
    for i, ts in enumerate(p.index):
        if not math.isfinite(T[i]) or not math.isfinite(y[i]):
            continue
        key = owner.get((season_of[ts.month], day_of[ts.dayofweek]))
        if key is None:
            continue
        exp = F.curve(doc["submodels"][key]["coefficients"], float(T[i]))
        I.reach("formula.rows_compared")
        if abs(exp - y[i]) > 1e-9 * max(1.0, abs(y[i]), abs(exp)):
            n_bad += 1
            if n_bad == 1:
                c = doc["submodels"][key]["coefficients"]
                add("prediction-differs-from-documented-formula:" + str(c["model_type"]),
                    "%s: %s T=%.4f predicted %.10g, the documented formula on the JSON coefficients gives %.10g (sub-model %s)" % (label, ts.date(), T[i], y[i], exp, key),
                    coefficients=c, temperature_constraints=doc["submodels"][key]["temperature_constraints"], submodel=key)
    return n_bad


def param_case(spec, keys):
    import opendsm.eemeter as em
    rng = rng_for(spec["seed"], ID, 1, spec["n"])
    fam = spec["family"]
    CUR["family"] = fam + ":parameter-built"
    maps = {"default": {}, "custom": {"season": {"march": "winter", "october": "summer"}, "weekday_weekend": {"friday": "weekend"}}}[spec["maps"]]
    st = B.settings_dump("billing" if fam == "billing" else "current", **maps) if maps else B.settings_dump("billing" if fam == "billing" else "current")
    if fam == "billing":
        st["developer_mode"] = True
    st = json.loads(json.dumps(B.norm_json(st) if hasattr(B, "norm_json") else _plain(st)))
    Model = em.BillingModel if fam == "billing" else em.DailyModel
    Rep = em.BillingReportingData if fam == "billing" else em.DailyReportingData
    n = 0
    for split in spec["splits"]:
        subs = {}
        for comp in split.split("__"):
            tc = B.draw_tc(rng)
            subs[comp] = dict(coefficients=B.draw_coefficients(rng, B.SHAPES[int(rng.integers(0, 7))], tc, edge_p=0.3, segment_box_only=True),
                              temperature_constraints=tc, f_unc=float(rng.uniform(0.2, 4)))
        doc = json.loads(json.dumps(B.make_doc(subs, st, tz=spec["tz"], warnings=[], disqualification=[])))
        m = Model.from_dict(copy.deepcopy(doc))
        idx = pd.date_range(pd.Timestamp("2020-01-01", tz=spec["tz"]), periods=366, freq="D")
        T = np.round(np.concatenate([np.linspace(-60, 140, 300), rng.uniform(-60, 140, 66)]), 3)
        for sub in subs.values():
            for k in ("hdd_bp", "cdd_bp"):
                v = sub["coefficients"].get(k)
                if v is not None:
                    j = int(rng.integers(0, 366))
                    T[j] = v
                    T[(j + 1) % 366] = float(np.nextafter(v, 1e9))
                    T[(j + 2) % 366] = float(np.nextafter(v, -1e9))
        rng.shuffle(T)
        data = Rep(pd.DataFrame({"temperature": T}, index=idx), is_electricity_data=True)
        p = m.predict(data)
        formula_check(doc, p, "parameter-built %s" % split)
        # document round trip
        I.reach("roundtrip.rejson_compared")
        d2 = json.loads(m.to_json())
        if _plain(d2) != _plain(doc):
            diff = [k for k in doc if _plain(d2.get(k)) != _plain(doc[k])]
            add("document-changes-through-from_dict-to_json:" + fam, "from_dict(doc).to_json() differs from doc in %s" % diff, fields=diff)
        m2 = Model.from_json(m.to_json())
        I.reach("roundtrip.predict_compared")
        dif = I.frame_equal_bits(p, m2.predict(data))
        if dif:
            add("roundtrip-prediction-differs:" + fam, "prediction after from_json(to_json()) differs: %s" % dif[:3], split=split)
        types = sorted(str(s["coefficients"]["model_type"]) for s in subs.values())
        if any(t != "tidd" for t in types):
            keys.add("param|%s|%s|%s|%s" % (fam, split, spec["maps"], ",".join(types)))
        n += 1
    I.reach("family." + ("billing" if fam == "billing" else "daily"))
    return n


def _plain(v):
    if isinstance(v, dict):
        return {str(k): _plain(x) for k, x in v.items()}
    if isinstance(v, (list, tuple)):
        return [_plain(x) for x in v]
    if isinstance(v, float) and math.isnan(v):
        return "nan"
    if hasattr(v, "value") and not isinstance(v, (int, float, str)):
        return _plain(v.value)
    return v


def meta(fam, m):
    if fam.kind == "caltrack":
        return dict(tz=None, warnings=None, disqualification=None)
    return dict(tz=str(m.baseline_timezone), warnings=[_plain(w.json()) for w in m.warnings], disqualification=[_plain(w.json()) for w in m.disqualification])


def fitted_case(spec, keys):
    fam = FT.Family(spec["family"])
    CUR["family"] = spec["family"]
    rng = rng_for(spec["seed"], ID, 2, spec["n"])
    tz = spec["tz"]
    I.reach("family." + fam.kind)
    days = 365
    bdf = fam.baseline_frame(rng, tz=tz, days=days, noise=spec.get("noise", 0.05))
    variant = spec.get("variant")
    if variant == "warnings" and fam.kind in ("daily", "hourly"):
        k = rng.choice(len(bdf), size=3, replace=False)
        bdf.iloc[k, bdf.columns.get_loc("observed")] = bdf["observed"].max() * 50          # extreme values -> warning
    if variant == "disqualified":
        if fam.kind == "daily":
            bdf = bdf.iloc[:250]                                                         # too short -> disqualification, fitted with the override
        elif fam.kind == "hourly":
            bdf = bdf.iloc[:24 * 200]
    tzobj = None
    if variant and variant.startswith("zone-object:"):
        # timestamps that carry a tzinfo which is not an IANA zone name (ISO-8601 offsets parsed by pandas, pytz.FixedOffset, dateutil zones)
        import datetime as _dt
        kind = variant.split(":")[1]
        if kind == "fixed-offset":
            tzobj = _dt.timezone(_dt.timedelta(hours=-6))
        elif kind == "pytz-fixed-offset":
            import pytz
            tzobj = pytz.FixedOffset(-360)
        else:
            import dateutil.tz
            tzobj = dateutil.tz.gettz("America/Chicago")
        bdf.index = bdf.index.tz_convert(tzobj)
        I.reach("baseline.zone_object_that_is_not_an_iana_name")
    if variant == "month-without-meter-data":
        # a whole calendar month without a meter reading (fitted with the override where the family has one): month-specific parameters
        # of the stored model may be undefined (NaN) - they must come back as they were written
        mth = int(rng.integers(1, 13))
        bdf.loc[bdf.index.month == mth, "observed"] = np.nan
        I.reach("baseline.calendar_month_without_meter_data")
    data = fam.baseline_data(bdf)
    try:
        m = fam.new_model(seed=spec["n"] + 1)
        if spec.get("reused_model_object"):
            # the same model object was used for another meter before (fit A, predict, then fit B): nothing of A may survive in B
            other = fam.baseline_frame(rng, tz=tz, days=days, noise=0.15, kind="heating" if fam.kind in ("daily", "billing") else "both")
            if "observed" in other.columns:
                other["observed"] = other["observed"] * 3.0 + 7.0
            fam.fit(m, fam.baseline_data(other))
            fam.predict(m, fam.reporting_data(fam.reporting_frame(rng, tz, "2019-02-01", 90, with_observed=True)))
            I.reach("model_object_reused")
        m = fam.fit(m, data)
    except Exception as e:
        # the statement quantifies over baselines that fit; a fit that raises (seen only for developer profiles on short data:
        # a split component with fewer days than segment_minimum_count) is counted, not judged here
        I.reach("fit.raised_outside_the_quantifier:" + type(e).__name__)
        return 0
    # reporting sets
    sets = []
    s0 = pd.Timestamp("2019-01-01") + pd.Timedelta(days=int(rng.integers(0, 300)))
    for name, dd, obs, mean in (("year", 365, True, None), ("hot-year-no-usage", 365, False, 80.0), ("cold-month", 31, True, 15.0), ("single-day", 1, False, None),
                                ("partial", 140, True, None))[: (3 if spec["tier"] == "quick" else 5)]:
        df = fam.reporting_frame(rng, tz, str((s0 + pd.Timedelta(days=int(rng.integers(0, 200)))).date()), dd, with_observed=obs, mean=mean)
        if name == "partial":
            k = rng.choice(len(df), size=max(1, len(df) // 20), replace=False)
            df.iloc[k, df.columns.get_loc("temperature")] = np.nan
        if tzobj is not None:
            df.index = df.index.tz_convert(tzobj)
        sets.append((name, df))
    try:
        js = m.to_json()
    except Exception as e:
        add("to_json-raised:%s:%s" % (fam.kind, type(e).__name__), "to_json() of a fitted %s model raised %s: %s" % (spec["family"], type(e).__name__, str(e)[:200]))
        return 1
    try:
        m1 = fam.from_json(js)
    except Exception as e:
        add("from_json-raised:%s:%s:%s" % (fam.kind, fam.profile if fam.kind == "daily" else "-", type(e).__name__),
            "from_json(to_json()) of a fitted %s model raised %s: %s" % (spec["family"], type(e).__name__, str(e)[:200]))
        return 1
    gens = [("first", m1, js)]
    try:
        js1 = m1.to_json()
        I.reach("roundtrip.rejson_compared")
        a, b = json.loads(js), json.loads(js1)
        if js1 != js and _plain(a) == _plain(b):
            I.reach("roundtrip.rejson_equal_values_other_number_format")        # e.g. 12 vs 12.0: same document
        elif js1 != js:
            diff = [k for k in a if _plain(a.get(k)) != _plain(b.get(k))] or sorted(set(b) - set(a))
            add("re-serialisation-differs:%s:%s" % (fam.kind, ",".join(map(str, diff))[:60]), "from_json(js).to_json() != js: differs in %s" % diff, fields=diff)
        m2 = fam.from_json(js1)
        gens.append(("second", m2, js1))
        I.reach("second_generation")
    except Exception as e:
        add("re-serialisation-raised:%s:%s" % (fam.kind, type(e).__name__), "from_json(js).to_json() raised %s: %s" % (type(e).__name__, str(e)[:200]))
    I.reach("roundtrip.metadata_compared")
    m0 = meta(fam, m)
    for gname, mg, _ in gens:
        mm = meta(fam, mg)
        for k in m0:
            if mm[k] != m0[k]:
                add("metadata-not-kept:%s:%s" % (fam.kind, k), "%s generation: %s is %r, was %r" % (gname, k, str(mm[k])[:200], str(m0[k])[:200]))
    doc = json.loads(js)
    for name, df in sets:
        try:
            rd = fam.reporting_data(df)
            p0 = fam.predict(m, rd)
        except Exception:
            I.reach("predict.original_model_raised_not_judged_here")       # whether the model may refuse this set is C04/C06's business
            continue
        for gname, mg, _ in gens:
            try:
                pg = fam.predict(mg, fam.reporting_data(df))
            except Exception as e:
                add("roundtrip-predict-raised:%s:%s" % (fam.kind, type(e).__name__), "%s-generation model cannot predict the %s set: %s: %s" % (gname, name, type(e).__name__, str(e)[:160]))
                continue
            I.reach("roundtrip.predict_compared")
            dif = I.frame_equal_bits(p0, pg)
            if dif:
                cols = sorted(set(d.split("[")[1].split("]")[0] for d in dif if "[" in d)) or ["frame"]
                add("roundtrip-prediction-differs:%s:%s" % (fam.kind, ",".join(cols)), "%s generation predicts the %s set differently: %s" % (gname, name, dif[:3]), reporting_set=name)
        if fam.kind in ("daily", "billing"):
            formula_check(doc, p0, "fitted %s, %s set" % (spec["family"], name))
        keys.add("fit|%s|%s|%s|%s" % (spec["family"], variant, tz, name))
    return len(sets) * len(gens)


def gen_cases(tier, seed):
    q = tier == "quick"
    splits = B.all_split_strings()
    cases = []
    k = 0
    chunk = 6
    rounds = 1 if q else 6
    for r in range(rounds):
        for i in range(0, len(splits), chunk):
            cases.append(dict(kind="param", family=["daily", "billing"][(i // chunk + r) % 2], splits=splits[i:i + chunk], maps=["default", "custom"][(i // chunk) % 2],
                              tz=["UTC", "America/Chicago", "Australia/Sydney"][(i // chunk) % 3], n=k))
            k += 1
    fams = FT.FAMILIES_QUICK if q else FT.FAMILIES_ALL + FT.FAMILIES_QUICK
    zones = ["America/Chicago", "Australia/Sydney", "UTC", "Europe/London", "Asia/Kolkata"]
    for i, f in enumerate(fams):
        cases.append(dict(kind="fitted", family=f, tz=zones[i % len(zones)], variant=[None, "warnings", "disqualified"][i % 3] if not f.startswith(("billing", "caltrack")) else None,
                          n=k, timeout=3000))
        k += 1
    for i, f in enumerate(["daily:current", "billing", "hourly:default", "daily:legacy"] if q else ["daily:current", "billing", "hourly:default", "daily:legacy", "hourly:default:ghi", "caltrack", "daily:custom-maps", "daily:dev-nofinal"]):
        cases.append(dict(kind="fitted", family=f, tz=zones[i % len(zones)], variant=None, reused_model_object=True, n=k, timeout=3000))
        k += 1
    zo = [("daily:current", "fixed-offset", "Etc/GMT+6"), ("billing", "pytz-fixed-offset", "Etc/GMT+6"), ("daily:legacy", "dateutil", "America/Chicago"), ("hourly:default", "fixed-offset", "Etc/GMT+6")]
    if not q:
        zo += [("billing", "fixed-offset", "Etc/GMT+6"), ("daily:current", "dateutil", "America/Chicago"), ("hourly:default:ghi", "pytz-fixed-offset", "Etc/GMT+6"), ("caltrack", "fixed-offset", "Etc/GMT+6")]
    for f, kind, z in zo:
        cases.append(dict(kind="fitted", family=f, tz=z, variant="zone-object:" + kind, n=k, timeout=3000))
        k += 1
    cases.append(dict(kind="fitted", family="hourly:nonsolar-supp-ghi:ghi", tz=zones[1], variant=None, n=k, timeout=3000))
    k += 1
    for i, pr in enumerate(FT.HOURLY_ALTERNATIVES):
        cases.append(dict(kind="fitted", family="hourly:" + pr + (":ghi" if (i % 4 == 3 and not q) else ""), tz=zones[(i + 2) % len(zones)], variant=None, n=k, timeout=3000))
        k += 1
    for i, f in enumerate(["caltrack", "hourly:default", "daily:current"] if q else ["caltrack", "hourly:default", "daily:current", "caltrack", "hourly:default:ghi", "daily:legacy", "caltrack", "hourly:robust"]):
        cases.append(dict(kind="fitted", family=f, tz=zones[(i + 1) % len(zones)], variant="month-without-meter-data", n=k, timeout=3000))
        k += 1
    if not q:
        for i in range(30):
            f = ["daily:current", "daily:legacy", "hourly:default", "billing", "daily:custom-maps", "hourly:default:ghi"][i % 6]
            cases.append(dict(kind="fitted", family=f, tz=zones[i % len(zones)], variant=[None, "warnings", "disqualified"][(i // 6) % 3] if f != "billing" else None,
                              noise=[0.02, 0.1, 0.2][i % 3], n=k, timeout=3000))
            k += 1
    return cases


def run_case(spec):
    del VIOL[:]
    CUR.clear()
    keys = set()
    n = param_case(spec, keys) if spec["kind"] == "param" else fitted_case(spec, keys)
    return dict(viol=[dict(v) for v in VIOL], reach=I.take_reach(), keys=sorted(keys), hist={"family": spec["family"], "kind": spec["kind"]}, events=n)
