"""C05 — the counterfactual never depends on reporting-period consumption.

Paired real predict() runs on pristine copies of one fitted model: the reporting sets are identical in
weather and calendar and differ only in the observed column (scaled, shuffled, partly/all NaN, absent,
zeros, negative).  Every prediction column is compared bit for bit on the rows where both runs
produced a prediction."""
import copy

import numpy as np
import pandas as pd

from vf import instrument as I
from vf import fits as FT
from vf.gen import rng_for

ID = "C05"
TECHNIQUE = 'runtime monitoring: paired-run differential monitor on the real predict() (same weather and calendar, altered observed column), bit-exact on values and on which rows get a prediction'
LEVEL = "exploration"
CASE_TIMEOUT = 3000
RULE = ("one fitted model per case (every family/profile; baselines of 365 days covering every calendar month and weekday, asserted by the generator) x "
        "reporting spans (week, month incl. a DST change, partial year, year) x alterations of the observed column {x0.1, x10, shuffled, 30% NaN, runs of NaN, "
        "all NaN, absent, zeros, negative}.  distinct_nontrivial = distinct (family, span, alteration) pairs whose two runs share at least one predicted row.")
ASSUMPTIONS = ["values compared on the intersection of rows where both runs produced a finite prediction; which rows get a prediction is compared too: everywhere for the "
               "hourly families, on days with usable usage in both runs for the daily family (a day without usage gets no prediction: C07), not for billing",
               "billing: the observed column is altered on the billing reads; the same read calendar is kept", "from_series entry: the first and last day of either run are not compared (the feed is cut to the span of the meter readings, so they may be partly spanned days)"]
REQUIRED_REACH = {"pair.compared": 60, "pair.rows": 5000, "baseline.covers_all_months_and_weekdays": 6, "alteration.absent": 6, "alteration.all_nan": 6,
                  "span.with_dst_change": 4, "span.with_weather_gaps": 4, "pair.presence_compared": 40, "pair.presence_rows": 5000, "span.daily_from_series_hourly_temperature": 2, "span.daily_from_series_interval_usage_with_weather_gaps": 2, "span.from_series_weather_gaps_over_local_midnight": 2, "span.with_duplicated_timestamps": 4, "span.from_series_feed_in_another_zone_than_the_meter": 2, "model.with_cells_in_the_outlier_temporal_cluster": 1, "span.billing_from_series_hourly_temperature": 1}

VIOL = []


def add(mech, what, **kw):
    if sum(1 for v in VIOL if v["mech"] == mech) < 3:
        VIOL.append(dict(mech=mech, what=what, **kw))


def alter(rng, df, how, billing=False):
    d = df.copy()
    if how == "absent":
        return d.drop(columns=["observed"])
    o = d["observed"].to_numpy(dtype=float).copy()
    have = np.isfinite(o)
    if how == "x0.1":
        o = o * 0.1
    elif how == "x10":
        o = o * 10
    elif how == "shuffled":
        v = o[have].copy()
        rng.shuffle(v)
        o[have] = v
    elif how == "nan30":
        idx = np.flatnonzero(have)
        o[rng.choice(idx, size=max(1, int(0.3 * len(idx))), replace=False)] = np.nan
    elif how == "nan_runs":
        n = len(o)
        for _ in range(3):
            a = int(rng.integers(1, max(2, n - 3)))
            o[a:a + int(rng.integers(2, max(3, min(15, n // 4))))] = np.nan
    elif how == "all_nan":
        o[:] = np.nan
    elif how == "zeros":
        idx = np.flatnonzero(have)
        o[rng.choice(idx, size=max(1, int(0.2 * len(idx))), replace=False)] = 0.0
    elif how == "negative":
        o = -np.abs(o)
    elif how == "nan_where_weather_missing":
        # the meter and the weather station were down at the same time
        w = ~np.isfinite(d["temperature"].to_numpy(dtype=float))
        if not w.any():
            w = np.zeros(len(o), bool)
            w[rng.choice(len(o), size=max(1, len(o) // 50), replace=False)] = True
        o[w] = np.nan
    d["observed"] = o
    return d


ALTS = ["x0.1", "x10", "shuffled", "nan30", "nan_runs", "all_nan", "absent", "zeros", "negative", "nan_where_weather_missing"]
COLS = {"daily": ["predicted", "predicted_unc", "heating_load", "cooling_load", "model_split", "model_type"],
        "billing": ["predicted", "predicted_unc", "heating_load", "cooling_load", "model_split", "model_type"],
        "hourly": ["predicted"], "caltrack": ["predicted"]}


def run_case(spec):
    rng = rng_for(spec["seed"], ID, spec["n"])
    del VIOL[:]
    keys = set()
    fam = FT.Family(spec["family"])
    tz = spec["tz"]
    bdf = fam.baseline_frame(rng, tz=tz, days=365, start="2018-01-01")
    cov = set(zip(bdf.index.month, bdf.index.dayofweek))
    if len(cov) == 84:
        I.reach("baseline.covers_all_months_and_weekdays")
    else:
        raise RuntimeError("generator premise broken: baseline covers %d of 84 (month, weekday) cells" % len(cov))
    data = fam.baseline_data(bdf)
    m = fam.fit(fam.new_model(seed=spec["n"] + 1), data)
    if fam.kind == "hourly" and (m._df_temporal_clusters["temporal_cluster"] == -1).any():
        I.reach("model.with_cells_in_the_outlier_temporal_cluster")
    spans = [("week", "2019-06-03", 7), ("month-with-dst", "2019-02-25" if tz != "Australia/Sydney" else "2019-03-20", 31), ("partial", "2019-04-10", 150), ("year", "2019-01-01", 365)]
    if spec["tier"] == "quick":
        spans = spans[:3] if fam.kind != "caltrack" else spans[1:3]
    n_pairs = 0

    def series_entry(frame):
        """daily family, second entry point: daily meter series + HOURLY temperature feed through from_series"""
        import opendsm.eemeter as em
        idx = frame.index
        hidx = pd.date_range(idx[0].tz_convert("UTC"), (idx[-1] + pd.Timedelta(days=1)).tz_convert("UTC"), freq="h", inclusive="left").tz_convert(idx.tz)
        pos = np.searchsorted(idx.asi8 if idx.unit == "ns" else idx.as_unit("ns").asi8, hidx.asi8 if hidx.unit == "ns" else hidx.as_unit("ns").asi8, side="right") - 1
        hT = frame["temperature"].to_numpy(dtype=float)[pos] + np.round(3 * np.sin(2 * np.pi * (hidx.hour.values - 15) / 24), 2)
        # short weather-station outages (the same hours in every run of the pair), some of them over local midnight; every day keeps well over
        # half of its readings
        gr = np.random.default_rng([spec["seed"], 505, spec["n"]])
        for a in gr.choice(np.arange(30, len(hT) - 30), size=max(4, len(hT) // 400), replace=False):
            hT[a:a + int(gr.integers(1, 5))] = np.nan
        mid = np.flatnonzero(hidx.hour.values == 0)
        for a in gr.choice(mid[2:-2], size=max(2, len(mid) // 25), replace=False):
            hT[a - 1:a + 2] = np.nan
        I.reach("span.from_series_weather_gaps_over_local_midnight")
        temp = pd.Series(hT, index=hidx, name="temperature")
        meter = frame["observed"].rename("observed") if "observed" in frame.columns else None
        kw = {}
        if spec["n"] % 2:
            # the weather feed arrives in UTC; without a meter series the site's zone is requested explicitly
            temp = temp.tz_convert("UTC")
            I.reach("span.from_series_feed_in_another_zone_than_the_meter")
            if meter is None:
                import zoneinfo
                kw["tzinfo"] = zoneinfo.ZoneInfo(str(idx.tz))
        return em.DailyReportingData.from_series(meter, temp, is_electricity_data=True, **kw)

    def billing_series_entry(frame):
        """billing family, second entry point: the bills (reads at period starts, closing read last) + an HOURLY temperature feed"""
        import opendsm.eemeter as em
        idx = frame.index
        hidx = pd.date_range(idx[0].tz_convert("UTC"), (idx[-1] + pd.Timedelta(days=1)).tz_convert("UTC"), freq="h", inclusive="left").tz_convert(idx.tz)
        pos = np.searchsorted(idx.asi8 if idx.unit == "ns" else idx.as_unit("ns").asi8, hidx.asi8 if hidx.unit == "ns" else hidx.as_unit("ns").asi8, side="right") - 1
        hT = frame["temperature"].to_numpy(dtype=float)[pos] + np.round(3 * np.sin(2 * np.pi * (hidx.hour.values - 15) / 24), 2)
        temp = pd.Series(hT, index=hidx, name="temperature")
        if "observed" not in frame.columns:
            return em.BillingReportingData.from_series(None, temp, is_electricity_data=True)
        rows = np.arange(0, len(frame), 30)
        reads = frame["observed"].iloc[rows].rename("observed")
        return em.BillingReportingData.from_series(reads, temp, is_electricity_data=True)
    if fam.kind == "billing":
        spans = spans + [("year/billing-from_series-hourly-temperature", "2019-01-01", 365)]

    def caltrack_series_entry(frame):
        """CalTRACK hourly, second entry point: meter series on the site's clock (or none) + the weather feed in UTC"""
        from opendsm.eemeter.models.hourly_caltrack import HourlyReportingData as CR_
        meter = frame["observed"].rename("observed") if "observed" in frame.columns else None
        I.reach("span.from_series_feed_in_another_zone_than_the_meter")
        return CR_.from_series(meter, frame["temperature"].rename("temperature").tz_convert("UTC"), is_electricity_data=True)
    if fam.kind == "caltrack":
        spans = spans + [("month/caltrack-from_series-feed-in-utc", "2019-05-06", 28)]

    def ami_entry(frame):
        """daily family fed with interval data: HOURLY usage + HOURLY temperature (with outages) through from_series"""
        import opendsm.eemeter as em
        meter = frame["observed"].rename("observed") if "observed" in frame.columns else None
        return em.DailyReportingData.from_series(meter, frame["temperature"].rename("temperature"), is_electricity_data=True)
    if fam.kind == "daily":
        spans = spans + [("partial/from_series-hourly-temperature", "2019-01-15" if tz != "Australia/Sydney" else "2019-07-15", 250),
                         ("partial/from_series-hourly-usage-and-temperature", "2019-02-10" if tz != "Australia/Sydney" else "2019-08-10", 120)]
    for sname, start, days in spans:
        make_rd = billing_series_entry if "billing-from_series" in sname else caltrack_series_entry if "caltrack-from_series" in sname else ami_entry if "hourly-usage" in sname else series_entry if "from_series" in sname else fam.reporting_data
        base = fam.reporting_frame(rng, tz, start, days, with_observed=True)
        if "hourly-usage" in sname:
            base = FT.synth_hourly(tz=tz, start=start, days=days, seed=rng)[["temperature", "observed"]]
            tcol = base.columns.get_loc("temperature")
            for a in rng.choice(np.arange(30, len(base) - 30), size=max(6, len(base) // 200), replace=False):
                base.iloc[a:a + int(rng.integers(1, 5)), tcol] = np.nan               # short weather-station outages
            I.reach("span.daily_from_series_interval_usage_with_weather_gaps")
        if "billing-from_series" in sname:
            I.reach("span.billing_from_series_hourly_temperature")
        elif "from_series" in sname:
            I.reach("span.daily_from_series_hourly_temperature")
        if fam.kind == "billing":
            # billing reporting data: daily temperature + reads at period starts
            reads = np.arange(0, days, 30)
            o = np.full(days, np.nan)
            o[reads] = base["observed"].to_numpy()[reads] * 30
            base["observed"] = o
        if fam.kind == "hourly" and sname in ("partial", "month-with-dst"):
            # gaps in the reporting weather: the data class fills them; the fill must not look at the usage column
            for col in [c for c in ("temperature", "ghi") if c in base.columns]:
                hrs = base.index.hour.values
                cand = np.flatnonzero((hrs >= 8) & (hrs <= 17))
                kk = rng.choice(cand, size=max(3, len(cand) // 12), replace=False)
                base.iloc[kk, base.columns.get_loc(col)] = np.nan
                a = int(rng.integers(24, max(25, len(base) - 80)))
                base.iloc[a:a + 30, base.columns.get_loc(col)] = np.nan
            I.reach("span.with_weather_gaps")
        if (sname == "partial" and fam.kind == "daily") or (sname in ("week", "partial") and fam.kind == "hourly"):
            # a feed with duplicated timestamps: a placeholder record (no usage, stale weather) delivered before the actual record.  Which record
            # is kept (the first, C17) must not depend on which of them carries a usage reading
            kk = np.sort(rng.choice(np.arange(1, len(base) - 1), size=max(2, len(base) // 40), replace=False))
            ph = base.iloc[kk].copy()
            ph["observed"] = np.nan
            ph["temperature"] = ph["temperature"] + 7.0
            if "ghi" in ph.columns:
                ph["ghi"] = ph["ghi"] * 0.5
            base = pd.concat([ph, base]).sort_index(kind="stable")
            I.reach("span.with_duplicated_timestamps")
        if sname == "month-with-dst" and tz not in ("UTC", "Asia/Kolkata"):
            I.reach("span.with_dst_change")
        try:
            ref_data = make_rd(base)
        except Exception:
            I.reach("span.unaltered_set_rejected_by_the_data_class")       # the data class's business (C10); nothing to compare
            continue
        try:
            ref = fam.predict(copy.deepcopy(m), ref_data)
        except Exception as e:
            add("predict-raised:%s:%s" % (fam.kind, type(e).__name__), "predict on the unaltered %s set raised %s: %s" % (sname, type(e).__name__, str(e)[:160]), family=spec["family"])
            continue
        for how in ALTS:
            alt = alter(rng, base, how)
            I.reach("alteration." + ("absent" if how == "absent" else "all_nan" if how == "all_nan" else "other"))
            try:
                alt_data = make_rd(alt)
            except Exception:
                I.reach("pair.altered_set_rejected_by_the_data_class")      # the data class's business (C10), no prediction to compare
                continue
            try:
                got = fam.predict(copy.deepcopy(m), alt_data)
            except Exception as e:
                add("predict-raised-on-altered-usage:%s:%s:%s" % (fam.kind, how, type(e).__name__),
                    "predict on the %s set with observed %s raised %s: %s" % (sname, how, type(e).__name__, str(e)[:160]), family=spec["family"], span=sname)
                continue
            common = ref.index.intersection(got.index)
            if "from_series" in sname:
                # from_series cuts the weather feed to the span of the meter readings it is given: the first and the last day of either run may be
                # partly spanned days of another length (the span of the reporting period is an input, not a usage value); they are not compared
                edge = [x for r_ in (ref, got) if len(r_) for x in (r_.index[0], r_.index[-1])]
                common = common.difference(pd.DatetimeIndex([x.tz_convert("UTC") for x in edge]).tz_convert(common.tz)) if len(common) else common
            a, b = ref.loc[common], got.loc[common]
            fa, fb = np.isfinite(a["predicted"].to_numpy(dtype=float)), np.isfinite(b["predicted"].to_numpy(dtype=float))
            both = fa & fb
            # which predictions are produced: the hourly families predict every supplied hour whatever the usage column holds; the
            # daily family predicts a day iff it has usable usage (C07), so presence is compared on the days whose usage is usable
            # (finite, or the column absent) in both runs.  Billing presence follows the read calendar and is left to C07/C19.
            if fam.kind in ("hourly", "caltrack", "daily") and "hourly-usage" not in sname:
                if fam.kind == "daily":
                    def usable(frame):
                        frame = frame[~frame.index.duplicated(keep="first")]          # of duplicated timestamps the first record counts (C17)
                        if "observed" not in frame.columns:
                            return pd.Series(True, index=frame.index)
                        o_ = frame["observed"].to_numpy(dtype=float)
                        return pd.Series(np.isfinite(o_) & (o_ != 0), index=frame.index)      # electricity data: a zero read is a missing read
                    ua, ub = usable(base).reindex(common), usable(alt).reindex(common)
                    where = (ua.fillna(False) & ub.fillna(False)).to_numpy(dtype=bool)
                else:
                    where = np.ones(len(common), dtype=bool)
                    if len(ref.index) != len(got.index) or not ref.index.equals(got.index):
                        add("prediction-rows-depend-on-reporting-usage:%s:%s" % (fam.kind, how),
                            "%s set: %d rows predicted with the supplied usage, %d with observed %s" % (sname, len(ref), len(got), how), family=spec["family"], span=sname, alteration=how)
                I.reach("pair.presence_compared")
                I.reach("pair.presence_rows", int(where.sum()))
                gone = where & (fa != fb)
                if gone.any():
                    i = int(np.argmax(gone))
                    add("prediction-presence-depends-on-reporting-usage:%s:%s" % (fam.kind, how),
                        "%s set: %d hours/days have a prediction in one run and none in the other when observed is %s (first %s: %r vs %r)" % (
                            sname, int(gone.sum()), how, common[i], a["predicted"].iloc[i], b["predicted"].iloc[i]), family=spec["family"], span=sname, alteration=how)
            I.reach("pair.compared")
            I.reach("pair.rows", int(both.sum()))
            n_pairs += 1
            if both.sum() == 0:
                continue
            for c in COLS[fam.kind]:
                if c not in a.columns or c not in b.columns:
                    continue
                x, y = a[c].to_numpy()[both], b[c].to_numpy()[both]
                if a[c].dtype.kind == "f":
                    same = I.bits_equal(x.astype(float), y.astype(float))
                else:
                    same = list(x) == list(y)
                if not same:
                    if a[c].dtype.kind == "f":
                        d = float(np.nanmax(np.abs(x.astype(float) - y.astype(float))))
                        i = int(np.nanargmax(np.abs(x.astype(float) - y.astype(float))))
                        where = "%s: %r vs %r (max |d| %.6g)" % (common[both][i], x[i], y[i], d)
                    else:
                        where = "labels differ"
                    add("prediction-depends-on-reporting-usage:%s:%s:%s" % (fam.kind, c, how),
                        "%s set: column %s differs when observed is %s: %s" % (sname, c, how, where), family=spec["family"], span=sname, alteration=how, column=c)
            keys.add("%s|%s|%s" % (spec["family"], sname, how))
    return dict(viol=[dict(v) for v in VIOL], reach=I.take_reach(), keys=sorted(keys), hist={"family": spec["family"]}, events=n_pairs)


def gen_cases(tier, seed):
    q = tier == "quick"
    fams = FT.FAMILIES_QUICK if q else FT.FAMILIES_ALL + FT.FAMILIES_QUICK
    zones = ["America/Chicago", "Europe/London", "Australia/Sydney", "UTC", "America/Los_Angeles"]
    return [dict(kind="pairs", family=f, tz=zones[i % len(zones)], n=i, timeout=3000) for i, f in enumerate(fams)]
