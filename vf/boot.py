"""Idempotent offline bootstrap: third-party helpers (icontract, deal, jsonschema) are installed
from the offline wheelhouse into /verif/.deps (git-ignored) and appended to sys.path *after*
/venv's own site-packages so that they can never shadow one of the repository's dependencies."""
import fcntl
import os
import subprocess
import sys

ROOT = os.path.dirname(os.path.dirname(os.path.abspath(__file__)))
DEPS = os.path.join(ROOT, ".deps")
CACHE = os.path.join(ROOT, ".cache")
WHEELS = "/opt/veriftools/wheels"
PKGS = ["icontract", "deal", "jsonschema"]
PY = "/venv/bin/python"


def ensure_deps(verbose=False):
    os.makedirs(DEPS, exist_ok=True)
    os.makedirs(os.path.join(CACHE, "numba"), exist_ok=True)
    stamp = os.path.join(DEPS, ".installed")
    if not os.path.exists(stamp):
        with open(os.path.join(DEPS, ".lock"), "w") as lk:
            fcntl.flock(lk, fcntl.LOCK_EX)
            if not os.path.exists(stamp):
                cmd = [PY, "-m", "pip", "install", "--quiet", "--no-index", "--find-links", WHEELS,
                       "--target", DEPS, "--upgrade"] + PKGS
                r = subprocess.run(cmd, capture_output=True, text=True)
                if r.returncode != 0:
                    sys.stderr.write(r.stdout + r.stderr)
                    raise SystemExit("bootstrap: offline install of %s failed" % PKGS)
                open(stamp, "w").write("ok\n")
    if DEPS not in sys.path:
        sys.path.append(DEPS)
    return DEPS


def worker_env(extra=None):
    """Environment of every worker subprocess."""
    env = dict(os.environ)
    env.setdefault("PYTHONHASHSEED", "0")
    for k in ("OMP_NUM_THREADS", "MKL_NUM_THREADS", "OPENBLAS_NUM_THREADS", "NUMEXPR_NUM_THREADS"):
        env.setdefault(k, "1")
    env.setdefault("NUMBA_CACHE_DIR", os.path.join(CACHE, "numba"))
    pp = [ROOT]
    if os.environ.get("VERIF_REPO"):  # scratch copy of the repository (mutant self-tests)
        pp.insert(0, os.environ["VERIF_REPO"])
    if env.get("PYTHONPATH"):
        pp.append(env["PYTHONPATH"])
    env["PYTHONPATH"] = os.pathsep.join(pp)
    env["PYTHONWARNINGS"] = "ignore"
    if extra:
        env.update(extra)
    return env


if __name__ == "__main__":
    print(ensure_deps(verbose=True))
