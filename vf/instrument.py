"""Instrumentation attached from OUTSIDE the repository (no source hooks): recording wrappers,
alias rebinding, sys.monitoring hooks on nested closures, deep bit-exact fingerprints."""
import collections
import functools
import hashlib
import math
import sys
import types

import numpy as np
import pandas as pd

REACH = collections.Counter()      # monitor name -> number of evaluations (zero => inconclusive)


def reach(name, n=1):
    REACH[name] += n


def take_reach():
    out = dict(REACH)
    REACH.clear()
    return out


# --------------------------------------------------------------------------------------------
# wrappers
# --------------------------------------------------------------------------------------------
def patch_everywhere(orig, new, prefix="opendsm"):
    """Rebind every alias of `orig` (module globals created by `from m import f`, class attributes)
    in already imported modules of the repository."""
    n = 0
    for name, mod in list(sys.modules.items()):
        if mod is None or not name.startswith(prefix):
            continue
        for k, v in list(vars(mod).items()):
            if v is orig:
                setattr(mod, k, new)
                n += 1
            elif isinstance(v, type) and getattr(v, "__module__", "").startswith(prefix):
                for ck, cv in list(vars(v).items()):
                    if cv is orig:
                        setattr(v, ck, new)
                        n += 1
    return n


def wrap(owner, name, pre=None, post=None, everywhere=True, counter=None):
    """Replace owner.name by a recording wrapper.
    pre(args, kwargs) -> ctx ; post(ctx, args, kwargs, result, exc) -> None (exceptions propagate)."""
    orig = owner.__dict__[name] if isinstance(owner, type) else getattr(owner, name)
    raw = orig
    kind = None
    if isinstance(orig, staticmethod):
        kind, raw = staticmethod, orig.__func__
    elif isinstance(orig, classmethod):
        kind, raw = classmethod, orig.__func__

    @functools.wraps(raw)
    def wrapper(*a, **k):
        if counter:
            REACH[counter] += 1
        ctx = pre(a, k) if pre else None
        try:
            res = raw(*a, **k)
        except BaseException as e:
            if post:
                post(ctx, a, k, None, e)
            raise
        if post:
            post(ctx, a, k, res, None)
        return res

    wrapper.__wrapped_orig__ = orig
    new = kind(wrapper) if kind else wrapper
    setattr(owner, name, new)
    if everywhere and kind is None and not isinstance(owner, type):
        patch_everywhere(orig, wrapper)
    return orig


def unwrap(owner, name):
    cur = owner.__dict__[name] if isinstance(owner, type) else getattr(owner, name)
    f = cur.__func__ if isinstance(cur, (staticmethod, classmethod)) else cur
    orig = getattr(f, "__wrapped_orig__", None)
    if orig is not None:
        setattr(owner, name, orig)
        if not isinstance(owner, type):
            patch_everywhere(f, orig)


def find_code(func, name):
    """Nested code object `name` inside func (closure defined in a function body)."""
    code = func.__code__ if hasattr(func, "__code__") else func
    stack = [code]
    while stack:
        c = stack.pop()
        for k in c.co_consts:
            if isinstance(k, types.CodeType):
                if k.co_name == name:
                    return k
                stack.append(k)
    return None


_TOOL = None


def local_hook(code, on_start=None, on_return=None):
    """sys.monitoring PY_START / PY_RETURN on one code object only (negligible overhead)."""
    global _TOOL
    mon = sys.monitoring
    if _TOOL is None:
        _TOOL = mon.PROFILER_ID
        try:
            mon.use_tool_id(_TOOL, "verif")
        except ValueError:
            pass
        _handlers["start"] = {}
        _handlers["ret"] = {}
        mon.register_callback(_TOOL, mon.events.PY_START, _on_start)
        mon.register_callback(_TOOL, mon.events.PY_RETURN, _on_return)
    ev = 0
    if on_start:
        _handlers["start"][code] = on_start
        ev |= mon.events.PY_START
    if on_return:
        _handlers["ret"][code] = on_return
        ev |= mon.events.PY_RETURN
    mon.set_local_events(_TOOL, code, ev)


_handlers = {}


def _on_start(code, off):
    h = _handlers["start"].get(code)
    if h:
        h(sys._getframe(1))


def _on_return(code, off, retval):
    h = _handlers["ret"].get(code)
    if h:
        h(sys._getframe(1), retval)


# --------------------------------------------------------------------------------------------
# fingerprints
# --------------------------------------------------------------------------------------------
def _h(b):
    return hashlib.sha1(b).hexdigest()[:16]


def _arr(a):
    a = np.asarray(a)
    if a.dtype.kind == "f":
        a = a.copy()
        a[np.isnan(a)] = np.nan           # canonical NaN payload
        a = a + 0.0 if False else a       # keep -0.0 distinct from 0.0 (bit-exact)
    if a.dtype.kind in "OUS":
        return _h(repr(a.tolist()).encode()) + ":" + str(a.dtype) + str(a.shape)
    if a.dtype.kind == "M" or a.dtype.kind == "m":
        return _h(np.ascontiguousarray(a.astype("int64")).tobytes()) + ":" + str(a.dtype) + str(a.shape)
    return _h(np.ascontiguousarray(a).tobytes()) + ":" + str(a.dtype) + str(a.shape)


def _index(ix):
    if isinstance(ix, pd.MultiIndex):
        return "MI(" + ",".join(_index(ix.get_level_values(i)) for i in range(ix.nlevels)) + ")"
    tz = getattr(ix, "tz", None)
    if isinstance(ix, pd.DatetimeIndex):
        vals = _arr(ix.asi8) + ":unit=" + str(getattr(ix, "unit", "ns"))
    else:
        try:
            vals = _arr(ix.to_numpy())
        except Exception:
            vals = _h(repr(list(ix)).encode())
    return "%s|tz=%s|name=%r|%s" % (type(ix).__name__, tz, ix.name, vals)


def fp(obj, path="", out=None, seen=None, depth=0):
    """Flat {path: fingerprint} map of everything reachable from obj (bit-exact on numbers).
    DatetimeIndex.freq is NOT part of the fingerprint (recorded separately, see DESIGN C02)."""
    if out is None:
        out, seen = {}, set()
    if depth > 12:
        out[path] = "<depth>"
        return out
    if obj is None or isinstance(obj, (bool, int, str, bytes)):
        out[path] = repr(obj)
    elif isinstance(obj, float):
        out[path] = "nan" if math.isnan(obj) else obj.hex()
    elif isinstance(obj, (np.generic,)):
        out[path] = _arr(np.asarray(obj))
    elif isinstance(obj, np.ndarray):
        out[path] = _arr(obj)
    elif isinstance(obj, pd.DataFrame):
        out[path + ".index"] = _index(obj.index)
        out[path + ".columns"] = repr(list(obj.columns)) + repr([str(t) for t in obj.dtypes])
        for i, c in enumerate(obj.columns):
            out[path + "[%r]" % (c,)] = _arr(obj.iloc[:, i].to_numpy())
    elif isinstance(obj, pd.Series):
        out[path + ".index"] = _index(obj.index)
        out[path + ".name"] = repr(obj.name) + str(obj.dtype)
        out[path + ".values"] = _arr(obj.to_numpy())
    elif isinstance(obj, pd.Index):
        out[path] = _index(obj)
    elif isinstance(obj, (pd.Timestamp, pd.Timedelta)):
        out[path] = repr(obj)
    elif isinstance(obj, dict):
        if id(obj) in seen:
            return out
        seen.add(id(obj))
        out[path + ".keys"] = repr([repr(k) for k in obj.keys()])
        for k, v in obj.items():
            fp(v, path + "{%r}" % (k,), out, seen, depth + 1)
    elif isinstance(obj, (list, tuple, set, frozenset)):
        if id(obj) in seen:
            return out
        seen.add(id(obj))
        items = sorted(obj, key=repr) if isinstance(obj, (set, frozenset)) else obj
        out[path + ".len"] = "%s:%d" % (type(obj).__name__, len(obj))
        for i, v in enumerate(items):
            fp(v, path + "[%d]" % i, out, seen, depth + 1)
    elif isinstance(obj, (types.FunctionType, types.BuiltinFunctionType, types.MethodType, type, types.ModuleType)):
        out[path] = "<%s %s>" % (type(obj).__name__, getattr(obj, "__qualname__", getattr(obj, "__name__", "?")))
    else:
        if id(obj) in seen:
            return out
        seen.add(id(obj))
        d = {}
        if hasattr(obj, "__dict__"):
            d.update(vars(obj))
        priv = getattr(obj, "__pydantic_private__", None)
        if isinstance(priv, dict):
            d.update({"__private__." + k: v for k, v in priv.items()})
        for s in getattr(type(obj), "__slots__", ()) or ():
            if isinstance(s, str) and hasattr(obj, s):
                d[s] = getattr(obj, s)
        if not d:
            try:
                out[path] = type(obj).__name__ + ":" + repr(obj)[:200]
            except Exception:
                out[path] = type(obj).__name__
            return out
        out[path + ".type"] = type(obj).__name__
        for k, v in d.items():
            if k in ("__pydantic_fields_set__", "__pydantic_extra__"):
                continue
            # pydantic caches computed (cached_property) values in __dict__: they are derived data
            fp(v, path + "." + str(k), out, seen, depth + 1)
    return out


def fp_diff(a, b, limit=8):
    ks = [k for k in sorted(set(a) | set(b)) if a.get(k) != b.get(k)]
    return ks[:limit]


def digest(obj):
    m = fp(obj)
    return _h(repr(sorted(m.items())).encode())


def bits_equal(a, b):
    """NaN-aware bitwise equality of two float arrays."""
    a = np.asarray(a, dtype=float)
    b = np.asarray(b, dtype=float)
    if a.shape != b.shape:
        return False
    na, nb = np.isnan(a), np.isnan(b)
    if not np.array_equal(na, nb):
        return False
    return np.array_equal(a[~na].view(np.int64), b[~nb].view(np.int64))


def frame_equal_bits(p, q):
    """Every column, index, dtype; returns list of differences (empty = identical)."""
    diffs = []
    if list(p.columns) != list(q.columns):
        return ["columns %r vs %r" % (list(p.columns), list(q.columns))]
    if not p.index.equals(q.index) or str(getattr(p.index, "tz", None)) != str(getattr(q.index, "tz", None)):
        diffs.append("index")
    for c in p.columns:
        if str(p[c].dtype) != str(q[c].dtype):
            diffs.append("dtype[%s] %s vs %s" % (c, p[c].dtype, q[c].dtype))
        elif p[c].dtype.kind == "f":
            if not bits_equal(p[c].to_numpy(), q[c].to_numpy()):
                a_, b_ = p[c].to_numpy(dtype=float), q[c].to_numpy(dtype=float)
                if a_.shape == b_.shape:
                    with np.errstate(invalid="ignore"):
                        d = np.nanmax(np.abs(a_ - b_)) if len(a_) else 0.0
                    diffs.append("values[%s] max|d|=%r nan-pattern-equal=%s" % (c, float(d), bool(np.array_equal(np.isnan(a_), np.isnan(b_)))))
                else:
                    diffs.append("values[%s] shape" % c)
        else:
            if not p[c].astype(object).where(p[c].notna(), None).equals(q[c].astype(object).where(q[c].notna(), None)):
                diffs.append("values[%s]" % c)
    return diffs
