"""Runtime-monitoring machinery for openeemeter/eemeter (see /verif/DESIGN.md)."""
