"""Seeded workload generators (weather, usage, defects, timezones).  Nothing here imports the
code under test except where a data class has to be built by the caller."""
import numpy as np
import pandas as pd

PROP_NUM = {"C%02d" % i: i for i in range(1, 21)}


def rng_for(seed, pid, *idx):
    return np.random.default_rng([int(seed), PROP_NUM.get(pid, 99), *[int(i) for i in idx]])


# zones used for end-to-end runs (hostile list, DESIGN §2); whole-hour DST unless noted
ZONES_E2E = [
    "America/Chicago", "UTC", "Europe/London", "Australia/Sydney", "Asia/Kolkata", "America/Los_Angeles",
    "Europe/Berlin", "America/Sao_Paulo", "Pacific/Auckland", "Asia/Tokyo", "America/Phoenix",
    "America/St_Johns", "Australia/Adelaide", "Africa/Johannesburg", "Asia/Kathmandu", "America/New_York",
    "Europe/Lisbon", "America/Anchorage", "Pacific/Honolulu", "Asia/Tehran",
]
ZONES_WHOLE_HOUR_DST = ["America/Chicago", "Europe/London", "Australia/Sydney", "America/Los_Angeles",
                        "Europe/Berlin", "Pacific/Auckland", "America/New_York", "Europe/Lisbon",
                        "America/Anchorage", "America/Denver", "Europe/Athens", "America/Halifax"]
ZONES_NO_DST = ["UTC", "Asia/Kolkata", "Asia/Tokyo", "America/Phoenix", "Africa/Johannesburg",
                "Asia/Kathmandu", "Pacific/Honolulu", "Asia/Dubai", "Etc/GMT+5"]


def daily_index(tz, start, n):
    """n local calendar days from `start`; a local midnight that does not exist (DST at midnight) is shifted forward"""
    try:
        return pd.date_range(start, periods=n, freq="D", tz=tz)
    except Exception:          # a local midnight inside the range does not exist / is ambiguous
        naive = pd.date_range(pd.Timestamp(start), periods=n, freq="D")
        return naive.tz_localize(tz, nonexistent="shift_forward", ambiguous=np.ones(n, dtype=bool))


def daily_weather(rng, idx, mean=None, amp=None, noise=None, south=None):
    n = len(idx)
    mean = rng.uniform(45, 65) if mean is None else mean
    amp = rng.uniform(18, 30) if amp is None else amp
    noise = rng.uniform(2, 6) if noise is None else noise
    south = (rng.random() < 0.25) if south is None else south
    doy = idx.dayofyear.values.astype(float)
    phase = 15 + (182 if south else 0)
    e = np.zeros(n)
    w = rng.normal(0, noise, n)
    for i in range(n):                       # AR(1) noise
        e[i] = 0.6 * (e[i - 1] if i else 0.0) + w[i]
    return mean - amp * np.cos(2 * np.pi * (doy - phase) / 365.25) + e


def daily_usage(rng, T, idx, kind="both", base=None, hb=None, hs=None, cb=None, cs=None, noise=0.03,
                weekend=0.0, season=0.0, outliers=0, smooth=0.0):
    base = rng.uniform(5, 50) if base is None else base
    hb = rng.uniform(45, 58) if hb is None else hb
    cb = rng.uniform(64, 75) if cb is None else cb
    hs = rng.uniform(0.3, 3) if hs is None else hs
    cs = rng.uniform(0.3, 3) if cs is None else cs
    y = np.full(len(T), float(base))
    if kind in ("both", "heating"):
        y = y + hs * np.maximum(hb - T, 0)
    if kind in ("both", "cooling"):
        y = y + cs * np.maximum(T - cb, 0)
    if kind == "inverted":
        # usage FALLS towards both temperature extremes (no admissible heating or cooling slope describes it)
        y = np.maximum(0.2 * base, y + 0.4 * base - 0.5 * hs * np.maximum(hb - T, 0) - 0.5 * cs * np.maximum(T - cb, 0))
    if weekend:
        y = y * np.where(idx.dayofweek.values >= 5, 1 + weekend, 1.0)
    if season:
        m = idx.month.values
        y = y * np.where(np.isin(m, [6, 7, 8, 9]), 1 + season, 1.0)
    if noise:
        y = y * (1 + rng.normal(0, noise, len(T)))
    if outliers:
        k = rng.choice(len(T), size=outliers, replace=False)
        y[k] = y[k] * rng.uniform(2, 5, outliers)
    params = dict(kind=kind, base=float(base), hb=float(hb), hs=float(hs), cb=float(cb), cs=float(cs))
    return y, params


def synth_daily(tz="America/Chicago", start="2018-01-01", n=365, seed=0, kind="both", **kw):
    rng = np.random.default_rng(seed) if not isinstance(seed, np.random.Generator) else seed
    idx = daily_index(tz, start, n)
    T = daily_weather(rng, idx, **{k: kw.pop(k) for k in ("mean", "amp", "south") if k in kw},
                      noise=kw.pop("wnoise", None))
    y, params = daily_usage(rng, T, idx, kind=kind, **kw)
    df = pd.DataFrame({"temperature": T, "observed": y}, index=idx)
    df.attrs["params"] = params
    return df


def _local(ts, tz):
    """naive wall-clock time -> aware; a non-existent time moves forward, an ambiguous one takes its first occurrence"""
    try:
        return pd.Timestamp(ts).tz_localize(tz)
    except Exception:
        return pd.Timestamp(ts).tz_localize(tz, nonexistent="shift_forward", ambiguous=True)


def hourly_index(tz, start, days):
    s = _local(start, tz)
    e = _local(pd.Timestamp(start) + pd.Timedelta(days=days), tz)
    # UTC arithmetic: every real hour exactly once, whatever the zone does in between
    return pd.date_range(s.tz_convert("UTC"), e.tz_convert("UTC"), freq="h", inclusive="left").tz_convert(tz)


def synth_hourly(tz="America/Chicago", start="2018-01-01", days=365, seed=0, ghi=False, noise=0.05,
                 mean=55.0, amp=25.0, scale=1.0, irregular=False, occupancy=False, occupancy_name="occupancy"):
    """irregular: every (month, weekday) has its own random-walk load shape (no clean weekday/weekend structure, so the
    temporal clustering has several nearly equally good partitions - the seed matters); occupancy: a supplemental
    time-series column that drives part of the load.  Both draw from the generator only when enabled."""
    rng = np.random.default_rng(seed) if not isinstance(seed, np.random.Generator) else seed
    idx = hourly_index(tz, start, days)
    doy = idx.dayofyear.values
    hod = idx.hour.values
    dow = idx.dayofweek.values
    T = mean - amp * np.cos(2 * np.pi * (doy - 15) / 365) + 8 * np.sin(2 * np.pi * (hod - 9) / 24) + rng.normal(0, 2, len(idx))
    shape = 1 + 0.5 * np.sin(2 * np.pi * (hod - 14) / 24) + 0.2 * (dow >= 5)
    y = shape * (1.0 + 0.05 * np.maximum(50 - T, 0) + 0.04 * np.maximum(T - 68, 0)) * scale
    y = y * (1 + rng.normal(0, noise, len(idx)))
    df = pd.DataFrame({"temperature": T, "observed": y}, index=idx)
    if irregular:
        shapes = rng.normal(0, 1, (13, 7, 24)).cumsum(axis=2) * 0.1
        df["observed"] = np.clip(df["observed"] + shapes[idx.month.values, dow, hod] * scale, 0.05 * scale, None)
    if occupancy:
        occ = ((hod >= 8) & (hod <= 18) & (dow < 5)).astype(float) + rng.normal(0, 0.05, len(idx))
        df["observed"] = df["observed"] + 0.5 * occ * scale
        df[occupancy_name] = occ
        # a second supplemental time series (two of a kind: their order in the model is part of what must be reproducible)
        wind = np.abs(rng.normal(8, 3, len(idx)))
        df["observed"] = df["observed"] + 0.01 * wind * scale
        df["Wind Speed"] = wind
    if ghi:
        df["ghi"] = np.maximum(0, 800 * np.sin(np.pi * (hod - 6) / 12)) * (0.6 + 0.4 * np.sin(2 * np.pi * (doy - 80) / 365))
        df["observed"] = df["observed"] - df["ghi"] / 1000 * scale
    return df


def billing_reads(rng, tz="America/Chicago", start="2018-01-01", n_periods=13, cycle=(28, 33), kind="both", noise=0.03):
    """Monthly-ish reads: returns (daily temperature frame, billing frame with 'observed' at period starts)."""
    steps = rng.integers(cycle[0], cycle[1] + 1, n_periods)
    days = int(steps.sum())
    didx = daily_index(tz, start, days + 1)
    T = daily_weather(rng, didx)
    yd, params = daily_usage(rng, T, didx, kind=kind, noise=noise)
    starts = np.concatenate([[0], np.cumsum(steps)])
    vals = [yd[starts[i]:starts[i + 1]].sum() for i in range(n_periods)] + [np.nan]
    bidx = didx[starts]
    return pd.DataFrame({"temperature": T}, index=didx), pd.DataFrame({"observed": vals}, index=bidx), params


def sprinkle_nan(rng, a, frac):
    a = np.array(a, dtype=float, copy=True)
    k = int(round(frac * len(a)))
    if k:
        a[rng.choice(len(a), size=k, replace=False)] = np.nan
    return a
