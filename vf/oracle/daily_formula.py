"""The documented daily/billing piecewise heating/cooling formula, evaluated from the JSON
coefficients alone (plain math, no repository import).

JSON conventions (opendsm docs / ModelCoefficients):
  hdd_tidd_cdd(_smooth): hdd_bp <= cdd_bp, hdd_beta >= 0, cdd_beta >= 0; *_k are fractions of the
                         dead band in [0,1] (percent-k) for the smooth variant
  hdd_tidd(_smooth):     hdd_bp, hdd_beta < 0 (usage falls as T rises), hdd_k absolute (deg F)
  tidd_cdd(_smooth):     cdd_bp, cdd_beta >= 0, cdd_k absolute (deg F)
  tidd:                  intercept only
"""
import math

MIN_PCT_K = 0.01


def effective(coef):
    """-> dict(H, bh, kh, C, bc, kc, b0): effective balance points (after the documented smoothing
    shift), slope magnitudes, absolute smoothing lengths; a missing side has slope 0 and bp None."""
    mt = coef["model_type"]
    b0 = float(coef["intercept"])
    H = C = None
    bh = bc = kh = kc = 0.0
    if mt in ("hdd_tidd_cdd", "hdd_tidd_cdd_smooth"):
        H, C = float(coef["hdd_bp"]), float(coef["cdd_bp"])
        bh, bc = float(coef["hdd_beta"]), float(coef["cdd_beta"])
        swapped = C < H
        if swapped:
            H, C, bh, bc = C, H, bc, bh
        if mt.endswith("smooth"):
            ph, pc = float(coef["hdd_k"]), float(coef["cdd_k"])
            if swapped:
                ph, pc = pc, ph
            if not (ph < MIN_PCT_K and pc < MIN_PCT_K):
                s = ph + pc
                if s > 1:
                    ph, pc = ph / s, pc / s
                kh, kc = ph * (C - H), pc * (C - H)
                H, C = H + kh, C - kc
    elif mt in ("hdd_tidd", "hdd_tidd_smooth"):
        H = float(coef["hdd_bp"])
        bh = abs(float(coef["hdd_beta"]))
        kh = float(coef.get("hdd_k") or 0.0) if mt.endswith("smooth") else 0.0
    elif mt in ("tidd_cdd", "tidd_cdd_smooth"):
        C = float(coef["cdd_bp"])
        bc = abs(float(coef["cdd_beta"]))
        kc = float(coef.get("cdd_k") or 0.0) if mt.endswith("smooth") else 0.0
    return dict(H=H, bh=bh, kh=kh, C=C, bc=bc, kc=kc, b0=b0)


def _clipexp(z):
    return math.exp(max(min(z, 709.0), -745.0))


def curve(coef, T):
    """Documented curve value at temperature T (deg F)."""
    e = effective(coef)
    b0 = e["b0"]
    if e["bh"] == 0 and e["bc"] == 0:
        return b0
    if e["H"] is not None and e["bh"] != 0 and T < e["H"]:
        d = e["H"] - T
        y = b0 + e["bh"] * d
        if e["kh"] > 0:
            y += e["bh"] * e["kh"] * (_clipexp(-d / e["kh"]) - 1.0)
        return y
    if e["C"] is not None and e["bc"] != 0 and T > e["C"]:
        d = T - e["C"]
        y = b0 + e["bc"] * d
        if e["kc"] > 0:
            y += e["bc"] * e["kc"] * (_clipexp(-d / e["kc"]) - 1.0)
        return y
    return b0
