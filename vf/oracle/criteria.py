"""The published sufficiency criteria, re-stated from the property statement (no repository import).

Input: the rows a data class works on, as plain arrays:
    t     : int64 UTC nanoseconds of each row (sorted)
    local : list of (year, month, day) local calendar date of each row
    usage_ok, temp_ok : bool arrays (valid usage / valid temperature on that row)
    extra monthly columns: dict name -> bool array (hourly: usage, irradiance)
Returns the set of expected disqualification names (short names)."""
import datetime as dt
from fractions import Fraction

import numpy as np

MIN_FRACTION = Fraction(9, 10)
MAX_DAYS = 365
MIN_DAYS = 329


def span_days(local, complete):
    idx = np.flatnonzero(complete)
    if len(idx) == 0:
        return None
    a, b = local[idx[0]], local[idx[-1]]
    return (dt.date(*b) - dt.date(*a)).days + 1


def valid_days(t, ok):
    """each timestamp's period counts up to the next timestamp; the last row contributes nothing"""
    if len(t) < 2:
        return Fraction(0)
    per = np.diff(t)                      # ns
    tot = int(per[ok[:-1]].sum())
    return Fraction(tot, 86400 * 10 ** 9)


def monthly_low(local, ok):
    months = np.array([m for (_, m, _) in local])
    for m in np.unique(months):
        sel = months == m
        if Fraction(int(ok[sel].sum()), int(sel.sum())) < MIN_FRACTION:
            return True
    return False


def expected(t, local, usage_ok, temp_ok, baseline, gas_negative=False, monthly_extra=None, usage_supplied=True):
    """-> (set of names, dict of margins: distance of each fraction criterion from its threshold in days)"""
    out = set()
    margins = {}
    usage_ok = np.asarray(usage_ok, bool)
    temp_ok = np.asarray(temp_ok, bool)
    complete = (usage_ok & temp_ok) if (baseline or usage_supplied) else temp_ok
    span = span_days(local, complete)
    if span is None:
        out.add("no_data")
        return out, {"no_data": True}
    if baseline:
        if span > MAX_DAYS or span < MIN_DAYS:
            out.add("incorrect_number_of_total_days")
        margins["length"] = min(abs(span - (MIN_DAYS - 0.5)), abs(span - (MAX_DAYS + 0.5)))
        if gas_negative:
            out.add("negative_meter_values")
    need = MIN_FRACTION * span
    crit = [("too_many_days_with_missing_temperature_data", temp_ok)]
    if baseline:
        crit += [("too_many_days_with_missing_data", usage_ok & temp_ok), ("too_many_days_with_missing_meter_data", usage_ok)]
    else:
        crit += [("too_many_days_with_missing_data", temp_ok)]
    for name, ok in crit:
        v = valid_days(t, ok)
        if v < need:
            out.add(name)
        margins[name] = float(abs(v - need))
    if monthly_low(local, temp_ok):
        out.add("missing_monthly_temperature_data")
    for name, ok in (monthly_extra or {}).items():
        if monthly_low(local, np.asarray(ok, bool)):
            out.add(name)
    return out, margins
