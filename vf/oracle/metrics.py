"""Textbook fit statistics in plain numpy (no pandas, no repository import).  Written from the
formula sheet in the property statement / BaselineMetrics docstring."""
import math

import numpy as np

MIN_DEN = 1e-3


def pearson(a, b):
    a = np.asarray(a, float)
    b = np.asarray(b, float)
    if len(a) < 2:
        return float("nan")
    da, db = a - a.mean(), b - b.mean()
    den = math.sqrt(float((da * da).sum()) * float((db * db).sum()))
    if den == 0:
        return float("nan")
    return float((da * db).sum()) / den


def quantile(x, q):
    x = np.sort(np.asarray(x, float))
    if len(x) == 0:
        return float("nan")
    pos = q * (len(x) - 1)
    lo = int(math.floor(pos))
    hi = min(lo + 1, len(x) - 1)
    return float(x[lo] + (x[hi] - x[lo]) * (pos - lo))


def ratio(num, den):
    """A ratio whose denominator is not safely positive is undefined."""
    if not (den > MIN_DEN):
        return None
    return num / den


def baseline(obs, pred, p):
    obs = np.asarray(obs, float)
    pred = np.asarray(pred, float)
    ok = np.isfinite(obs) & np.isfinite(pred)
    o, q = obs[ok], pred[ok]
    r = o - q
    n = len(o)
    out = {"n": n}
    if n == 0:
        return out

    def col(x):
        m = float(x.sum()) / len(x)
        return {"sum": float(x.sum()), "mean": m, "variance": float(((x - m) ** 2).sum()) / len(x),
                "sum_squared": float((x * x).sum()), "median": quantile(x, 0.5),
                "iqr": quantile(x, 0.75) - quantile(x, 0.25)}
    out["observed"], out["predicted"], out["residuals"] = col(o), col(q), col(r)
    for c in ("observed", "predicted", "residuals"):
        out[c]["std"] = math.sqrt(out[c]["variance"])
    sse = float((r * r).sum())
    out["sse"] = sse
    out["mse"] = sse / n
    out["rmse"] = math.sqrt(sse / n)
    out["mae"] = float(np.abs(r).sum()) / n
    out["mbe"] = float(r.sum()) / n
    ddof = max(n - p, 1)
    out["ddof"] = ddof
    out["rmse_adj"] = math.sqrt(sse / ddof)
    rho = pearson(r[1:], r[:-1]) if n >= 3 else float("nan")
    out["rho"] = rho
    if math.isfinite(rho) and abs(rho) < 1:
        n_prime = n * (1 - rho) / (1 + rho)
    else:
        n_prime = None          # statement does not define it; not judged
    out["n_prime"] = n_prime
    if n_prime is not None:
        dd = max(n_prime - p, 1)
        out["ddof_autocorr"] = dd
        out["rmse_autocorr_adj"] = math.sqrt(sse / dd)
    mean_o, iqr_o = out["observed"]["mean"], out["observed"]["iqr"]
    out["den_mean"], out["den_iqr"] = mean_o, iqr_o
    for name, num in (("rmse", out["rmse"]), ("rmse_adj", out["rmse_adj"]),
                      ("rmse_autocorr_adj", out.get("rmse_autocorr_adj")), ("mae", out["mae"]), ("mbe", out["mbe"])):
        if num is None:
            continue
        cv = {"rmse": "cvrmse", "rmse_adj": "cvrmse_adj", "rmse_autocorr_adj": "cvrmse_autocorr_adj", "mae": "nmae", "mbe": "nmbe"}[name]
        pn = {"rmse": "pnrmse", "rmse_adj": "pnrmse_adj", "rmse_autocorr_adj": "pnrmse_autocorr_adj", "mae": "pnmae", "mbe": "pnmbe"}[name]
        out[cv] = ratio(num, mean_o)
        out[pn] = ratio(num, iqr_o)
    c = pearson(q, o)
    out["r_squared"] = c * c if math.isfinite(c) else None       # undefined for a constant series: not judged
    if out["r_squared"] is not None:
        t = ratio((1 - out["r_squared"]) * (n - 1), ddof - 1)
        out["r_squared_adj"] = None if t is None else 1 - t
        out["r_squared_adj_defined"] = t is not None
    return out


def close(a, b, scale, rel=1e-9):
    if a is None or b is None:
        return a is None and b is None
    a, b = float(a), float(b)
    if math.isnan(a) or math.isnan(b):
        return math.isnan(a) and math.isnan(b)
    if math.isinf(a) or math.isinf(b):
        return a == b
    return abs(a - b) <= rel * max(abs(scale), abs(a), abs(b), 1e-300) + 1e-300
