"""Approved method constants, copied by hand from the settings docstrings / docs reference of the
pinned release (OpenDSM 1.0.0).  Independent of the code's runtime defaults: a default changed in
the code no longer matches this table."""

SEASON = dict(january="winter", february="winter", march="shoulder", april="shoulder", may="shoulder",
              june="summer", july="summer", august="summer", september="summer", october="shoulder",
              november="winter", december="winter", options=["summer", "shoulder", "winter"])
WEEK = dict(monday="weekday", tuesday="weekday", wednesday="weekday", thursday="weekday", friday="weekday",
            saturday="weekend", sunday="weekend", options=["weekday", "weekend"])

DAILY = dict(
    developer_mode=False,
    algorithm_choice="nlopt_sbplx",
    initial_guess_algorithm_choice="nlopt_direct",
    full_model="hdd_tidd_cdd",
    allow_smooth_model=True,
    alpha_minimum=-100,
    alpha_selection=2,
    alpha_final_type="last",
    alpha_final="adaptive",
    final_bounds_scalar=1,
    regularization_alpha=0.001,
    regularization_percent_lasso=1,
    segment_minimum_count=6,
    maximum_slope_oom_scalar=2,
    initial_step_percentage=0.1,
    split_selection=dict(criteria="bic", penalty_multiplier=0.24, penalty_power=2.061,
                         allow_separate_summer=True, allow_separate_shoulder=True, allow_separate_winter=True,
                         allow_separate_weekday_weekend=True, reduce_splits_by_gaussian=True,
                         reduce_splits_num_std=[1.4, 0.89]),
    season=SEASON, weekday_weekend=WEEK,
    uncertainty_alpha=0.1,
    cvrmse_threshold=1,
)

LEGACY = dict(DAILY, allow_smooth_model=False, alpha_final=2.0, segment_minimum_count=10,
              split_selection=dict(DAILY["split_selection"], allow_separate_summer=False, allow_separate_shoulder=False,
                                   allow_separate_winter=False, allow_separate_weekday_weekend=False,
                                   reduce_splits_by_gaussian=False, reduce_splits_num_std=None))
BILLING = dict(LEGACY)      # BillingModel is the legacy daily profile (billing presets)

HOURLY = dict(
    train_features=None,
    cvrmse_threshold=1.4,
    pnrmse_threshold=2.2,
    min_daily_training_hours=12,
    temperature_bin=dict(method="set_bin_width", n_bins=None, bin_width=12, include_edge_bins=True, edge_bin_rate="heuristic",
                         edge_bin_percent=0.0425, edge_bin_temperature_range_offset=1.0),
    temporal_cluster=dict(wavelet_n_levels=5, wavelet_name="haar", wavelet_mode="periodization",
                          pca_min_variance_ratio_explained=0.725, recluster_count=3, n_cluster_lower=2, n_cluster_upper=24,
                          min_cluster_size=1, score_metric="variance_ratio", distance_metric="euclidean"),
    supplemental_time_series_columns=None,
    supplemental_categorical_columns=None,
    elasticnet=dict(alpha=0.0425, l1_ratio=0.5, fit_intercept=True, precompute=False, max_iter=1000, copy_x=True, tol=1e-4,
                    selection="cyclic", adaptive_weights=False, adaptive_weight_max_iter=None, adaptive_weight_tol=None),
    scaling_method="standardscaler",
    seed=None,
)
HOURLY_SOLAR = dict(HOURLY, train_features=["temperature", "ghi"])
HOURLY_NONSOLAR = dict(HOURLY, train_features=["temperature"])

# developer-only fields of the daily tree (docs: "Developer mode only"); everything else is user-settable
DAILY_DEVELOPER_FIELDS = {
    "algorithm_choice", "initial_guess_algorithm_choice", "full_model", "allow_smooth_model", "alpha_minimum",
    "alpha_selection", "alpha_final_type", "alpha_final", "final_bounds_scalar", "regularization_alpha",
    "regularization_percent_lasso", "segment_minimum_count", "maximum_slope_oom_scalar", "initial_step_percentage",
    "cvrmse_threshold",
    "split_selection.criteria", "split_selection.penalty_multiplier", "split_selection.penalty_power",
    "split_selection.allow_separate_summer", "split_selection.allow_separate_shoulder", "split_selection.allow_separate_winter",
    "split_selection.allow_separate_weekday_weekend", "split_selection.reduce_splits_by_gaussian", "split_selection.reduce_splits_num_std",
}

# valid alternative values per developer field: (value, extra settings needed to keep cross-field validators happy)
DAILY_ALTERNATIVES = {
    "algorithm_choice": [("nlopt_bobyqa", {}), ("scipy_slsqp", {}), ("nlopt_neldermead", {})],
    "initial_guess_algorithm_choice": [("nlopt_direct_l", {}), ("scipy_direct", {})],
    "full_model": [("c_hdd_tidd", {}), ("tidd", {})],
    "allow_smooth_model": [("NOT", {})],
    "alpha_minimum": [(-50.0, {}), (-10, {})],
    "alpha_selection": [(1.0, {}), (-10, {}), (0.0, {})],
    "alpha_final_type": [("all", {}), (None, {"final_bounds_scalar": None})],
    "alpha_final": [(1.5, {}), (0.0, {}), ("ALT_ADAPTIVE", {})],
    "final_bounds_scalar": [(0.5, {}), (3, {})],
    "regularization_alpha": [(0.0, {}), (0.01, {})],
    "regularization_percent_lasso": [(0.0, {}), (0.5, {})],
    "segment_minimum_count": [(3, {}), (20, {})],
    "maximum_slope_oom_scalar": [(1, {}), (5.0, {})],
    "initial_step_percentage": [(0.5, {}), (0.01, {})],
    "cvrmse_threshold": [(0.5, {}), (0, {}), (2.5, {})],
    "split_selection.criteria": [("aic", {}), ("rmse", {}), ("sabic", {})],
    "split_selection.penalty_multiplier": [(0, {}), (1.0, {})],
    "split_selection.penalty_power": [(1, {}), (3.0, {})],
    "split_selection.allow_separate_summer": [("NOT", {})],
    "split_selection.allow_separate_shoulder": [("NOT", {})],
    "split_selection.allow_separate_winter": [("NOT", {})],
    "split_selection.allow_separate_weekday_weekend": [("NOT", {})],
    "split_selection.reduce_splits_by_gaussian": [("NOT", {})],
    "split_selection.reduce_splits_num_std": [([1.0, 1.0], {}), ([2.0, 0.5], {})],
}

# invalid values (must be rejected even in developer mode)
DAILY_INVALID = {
    "algorithm_choice": ["not_an_algorithm", 7],
    "initial_guess_algorithm_choice": ["nlopt_directt"],
    "full_model": ["hdd_cdd", ""],
    "allow_smooth_model": ["maybe"],
    "alpha_minimum": [-9.9, 0, "x"],
    "alpha_selection": [2.0001, -10.5],
    "alpha_final_type": ["first", "some"],
    "alpha_final": [2.5, "adaptiv", -101.0],
    "final_bounds_scalar": [0, -1.0],
    "regularization_alpha": [-0.001],
    "regularization_percent_lasso": [-0.1, 1.1],
    "segment_minimum_count": [2, 0, "many"],
    "maximum_slope_oom_scalar": [0.99, 0],
    "initial_step_percentage": [0, 0.51, -0.1],
    "cvrmse_threshold": [-0.01],
    "uncertainty_alpha": [-0.1, 1.1],
    "split_selection.criteria": ["bicc"],
    "split_selection.penalty_multiplier": [-0.1],
    "split_selection.penalty_power": [0.99],
    "split_selection.reduce_splits_num_std": [[1.0], [1.0, 0], [1, 2, 3], [-1, 1]],
    "season.march": ["spring"],
    "weekday_weekend.monday": ["holiday"],
}
# season / weekday maps: every month and every day x near misses of the option names (fragments, concatenations, empty, separators,
# wrong types) - a value is valid only if it IS one of the options
def _near_misses(options):
    out = ["", " ", ",", ", ", "-", "none", 0, 1.5, True, ["%s" % options[0]], {"a": 1}]
    for o in options:
        out += [o[:2], o[:3], o[:-1], o[1:], o + "s", o + ",", o.replace("e", "", 1), o[::-1]]
    out += [", ".join(options), ",".join(options[:2]), " ".join(options), options[0] + options[-1]]
    seen, res = set(), []
    for v in out:
        k = repr(v)
        if k not in seen and not (isinstance(v, str) and v.strip().lower() in options):
            seen.add(k)
            res.append(v)
    return res


for _m in [k for k in SEASON if k != "options"]:
    DAILY_INVALID["season.%s" % _m] = _near_misses(["summer", "shoulder", "winter"]) + ["spring"]
for _d in [k for k in WEEK if k != "options"]:
    DAILY_INVALID["weekday_weekend.%s" % _d] = _near_misses(["weekday", "weekend"]) + ["holiday"]

# cross-field: (settings, must be rejected?)
DAILY_CROSS = [
    ({"alpha_final": None}, True),                                              # alpha_final_type stays 'last'
    ({"alpha_final": None, "alpha_final_type": None, "final_bounds_scalar": None}, False),
    ({"alpha_final_type": None}, True),                                         # final_bounds_scalar must then be None
    ({"final_bounds_scalar": None}, True),                                      # ... and vice versa
    ({"alpha_final": -100.0}, False), ({"alpha_final": -100.01}, True), ({"alpha_final": 2.0}, False),
    ({"alpha_minimum": -10, "alpha_final": -10.0}, False), ({"alpha_minimum": -10, "alpha_final": -10.5}, True),
    ({"initial_step_percentage": None}, True),                                  # nlopt algorithm needs a step
    ({"initial_step_percentage": None, "algorithm_choice": "scipy_slsqp"}, False),
    ({"initial_step_percentage": 0.5}, False), ({"initial_step_percentage": 0.5000001}, True),
]

NON_DEVELOPER_ALTERNATIVES = [
    {"season": {"march": "winter"}}, {"season": {"october": "summer", "may": "summer"}},
    {"season": {m: "summer" for m in SEASON if m != "options"}},               # one-season map
    {"weekday_weekend": {"friday": "weekend"}}, {"weekday_weekend": {"saturday": "weekday", "sunday": "weekday"}},
    {"uncertainty_alpha": 0.05}, {"uncertainty_alpha": 0}, {"uncertainty_alpha": 1}, {"uncertainty_alpha": 0.32},
]

HOURLY_VALID = [
    {"cvrmse_threshold": 0.9}, {"pnrmse_threshold": 1.1}, {"min_daily_training_hours": 0}, {"min_daily_training_hours": 24},
    {"seed": 0}, {"seed": 12345}, {"scaling_method": "robustscaler"},
    {"temperature_bin": {"bin_width": 8}}, {"temperature_bin": {"bin_width": 1}},
    {"temperature_bin": {"method": "equal_bin_width", "n_bins": 6, "bin_width": None, "include_edge_bins": False, "edge_bin_rate": None, "edge_bin_percent": None}},
    {"temperature_bin": {"method": "equal_sample_count", "n_bins": 4, "bin_width": None, "include_edge_bins": False, "edge_bin_rate": None, "edge_bin_percent": None}},
    {"temperature_bin": {"include_edge_bins": False, "edge_bin_rate": None, "edge_bin_percent": None}},
    {"temperature_bin": {"edge_bin_rate": 1.5}}, {"temperature_bin": {"edge_bin_percent": 0.45}}, {"temperature_bin": {"edge_bin_percent": 0}},
    {"temporal_cluster": {"wavelet_name": "db3"}}, {"temporal_cluster": {"recluster_count": 1}}, {"temporal_cluster": {"n_cluster_upper": 6}},
    {"temporal_cluster": {"pca_min_variance_ratio_explained": 0.5}}, {"temporal_cluster": {"pca_min_variance_ratio_explained": 1}},
    {"elasticnet": {"alpha": 0.1}}, {"elasticnet": {"l1_ratio": 0}}, {"elasticnet": {"l1_ratio": 1}}, {"elasticnet": {"selection": "random"}},
    {"elasticnet": {"adaptive_weights": True, "adaptive_weight_max_iter": 10, "adaptive_weight_tol": 1e-4}},
    {"elasticnet": {"max_iter": 1}}, {"elasticnet": {"tol": 1e-8}},
]
HOURLY_INVALID = [
    # cross-field: adaptive re-weighting needs BOTH its iteration cap and its tolerance
    {"elasticnet": {"adaptive_weights": True, "adaptive_weight_max_iter": 10}}, {"elasticnet": {"adaptive_weights": True, "adaptive_weight_tol": 1e-4}},
    {"elasticnet": {"adaptive_weights": True}},
    {"min_daily_training_hours": -1}, {"min_daily_training_hours": 25}, {"seed": -1}, {"scaling_method": "minmax"},
    {"temperature_bin": {"bin_width": 0.5}}, {"temperature_bin": {"n_bins": 5}}, {"temperature_bin": {"bin_width": None}},
    {"temperature_bin": {"method": "equal_bin_width", "n_bins": 6, "bin_width": None}},          # edge bins only with set_bin_width
    {"temperature_bin": {"method": "equal_bin_width", "bin_width": None, "include_edge_bins": False, "edge_bin_rate": None, "edge_bin_percent": None}},
    {"temperature_bin": {"include_edge_bins": False}}, {"temperature_bin": {"edge_bin_rate": None}}, {"temperature_bin": {"edge_bin_percent": 0.46}},
    {"temperature_bin": {"edge_bin_percent": -0.01}}, {"temperature_bin": {"edge_bin_rate": "heuristics"}}, {"temperature_bin": {"edge_bin_temperature_range_offset": -1}},
    {"temperature_bin": {"method": "quantile"}},
    {"temporal_cluster": {"wavelet_name": "notawavelet"}}, {"temporal_cluster": {"wavelet_mode": "nomode"}}, {"temporal_cluster": {"wavelet_n_levels": 0}},
    {"temporal_cluster": {"pca_min_variance_ratio_explained": 0.49}}, {"temporal_cluster": {"pca_min_variance_ratio_explained": 1.01}},
    {"temporal_cluster": {"recluster_count": 0}}, {"temporal_cluster": {"n_cluster_lower": 1}}, {"temporal_cluster": {"min_cluster_size": 0}},
    {"temporal_cluster": {"score_metric": "elbow"}}, {"temporal_cluster": {"distance_metric": "hamming"}},
    {"elasticnet": {"alpha": -0.1}}, {"elasticnet": {"l1_ratio": 1.1}}, {"elasticnet": {"l1_ratio": -0.1}}, {"elasticnet": {"max_iter": 0}},
    {"elasticnet": {"tol": 0}}, {"elasticnet": {"selection": "greedy"}},
    {"elasticnet": {"adaptive_weights": True}}, {"elasticnet": {"adaptive_weight_max_iter": 5}}, {"elasticnet": {"adaptive_weight_tol": 1e-3}},
    {"elasticnet": {"adaptive_weights": True, "adaptive_weight_max_iter": 0, "adaptive_weight_tol": 1e-4}},
]
