"""Daily/billing models built from parameters (DailyModel.from_dict on generated documents): reaches
every model shape, split layout and bound-hitting coefficient vector without waiting for a fit."""
import numpy as np

SHAPES = ["hdd_tidd_cdd_smooth", "hdd_tidd_cdd", "hdd_tidd_smooth", "tidd_cdd_smooth", "hdd_tidd", "tidd_cdd", "tidd"]
NONE = dict(hdd_bp=None, hdd_beta=None, hdd_k=None, cdd_bp=None, cdd_beta=None, cdd_k=None)


def draw_tc(rng):
    """temperature constraints T_min < T_min_seg < T_max_seg < T_max (the n-th smallest/largest baseline temperature)"""
    T_min = float(rng.uniform(-25, 50))
    T_max = float(T_min + rng.uniform(25, 80))
    r = T_max - T_min
    a, b = sorted(rng.uniform(0.02, 0.3, 2))
    return dict(T_min=T_min, T_max=T_max, T_min_seg=T_min + float(a) * r, T_max_seg=T_max - float(b) * r)


def _bp(rng, tc, edge_p=0.35, lo_key="T_min_seg", hi_key="T_max_seg"):
    """balance point inside the optimiser's box [lo, hi], the bounds themselves included"""
    lo, hi = tc[lo_key], tc[hi_key]
    q = rng.random()
    if q < edge_p:
        return float(rng.choice([lo, hi, np.nextafter(lo, 1e9), np.nextafter(hi, -1e9), tc["T_min_seg"], tc["T_max_seg"]],
                                p=[0.3, 0.3, 0.1, 0.1, 0.1, 0.1]))
    return float(rng.uniform(lo, hi))


def draw_coefficients(rng, shape, tc, edge_p=0.35, segment_box_only=False, reversed_p=0.0):
    """A coefficient document inside the optimiser's box for `shape` (incl. the bounds themselves)."""
    inter = float(rng.uniform(0.5, 100)) if rng.random() < 0.9 else float(rng.uniform(-50, 0))   # net-metered base load
    def slope():
        q = rng.random()      # a declared slope is never zero (a zero slope is stored as a smaller shape)
        if q < 0.14:
            return float(10 ** rng.uniform(-6, -2))
        return float(10 ** rng.uniform(-1.5, 1.3))
    def pct():
        q = rng.random()
        if q < 0.15:
            return 0.0
        if q < 0.27:
            return float(rng.uniform(0, 0.01))
        if q < 0.35:
            return 1.0
        return float(rng.uniform(0.01, 1))
    def kabs():
        q = rng.random()
        if q < 0.12:
            return 0.0
        if q < 0.2:
            return float(10 ** rng.uniform(1.5, 3))
        return float(10 ** rng.uniform(-2, 1.5))
    c = dict(NONE, model_type=shape, intercept=inter)
    if shape in ("hdd_tidd_cdd_smooth", "hdd_tidd_cdd"):
        a, b = _bp(rng, tc, edge_p), _bp(rng, tc, edge_p)
        if rng.random() < 0.1:
            b = a
        a, b = min(a, b), max(a, b)
        if reversed_p and rng.random() < reversed_p:
            a, b = b, a            # both balance points share one box: a document may name them in reversed order (the kernel re-orders the pair)
        c.update(hdd_bp=a, hdd_beta=slope(), cdd_bp=b, cdd_beta=slope())
        if shape.endswith("smooth"):
            c.update(hdd_k=pct(), cdd_k=pct())
    elif shape in ("hdd_tidd_smooth", "hdd_tidd"):
        s = slope()
        # single-slope shapes: the initial fit searches [T_min, T_max]; an unsmoothed heating balance point is
        # stored no higher than T_max_seg, an unsmoothed cooling one no lower than T_min_seg
        box = ("T_min_seg", "T_max_seg") if (segment_box_only or rng.random() < 0.6) else (("T_min", "T_max") if shape.endswith("smooth") else ("T_min", "T_max_seg"))
        c.update(hdd_bp=_bp(rng, tc, edge_p, *box), hdd_beta=-s)
        if shape.endswith("smooth"):
            c.update(hdd_k=kabs())
    elif shape in ("tidd_cdd_smooth", "tidd_cdd"):
        box = ("T_min_seg", "T_max_seg") if (segment_box_only or rng.random() < 0.6) else (("T_min", "T_max") if shape.endswith("smooth") else ("T_min_seg", "T_max"))
        c.update(cdd_bp=_bp(rng, tc, edge_p, *box), cdd_beta=slope())
        if shape.endswith("smooth"):
            c.update(cdd_k=kabs())
    return c


def settings_dump(model="current", **overrides):
    import opendsm.eemeter as em
    if model == "billing":
        m = em.BillingModel(settings=overrides or None)
    elif model == "legacy":
        m = em.DailyModel(model="legacy", settings=overrides or None)
    else:
        m = em.DailyModel(settings=overrides or None)
    return m.settings.model_dump()


def make_doc(submodels, settings, tz="UTC", warnings=(), disqualification=(), error=None):
    return {"submodels": {k: {"coefficients": dict(v["coefficients"]), "temperature_constraints": dict(v["temperature_constraints"]),
                              "f_unc": float(v.get("f_unc", 1.0))} for k, v in submodels.items()},
            "info": {"error": error or {"wRMSE": 1.0, "RMSE": 1.0, "MAE": 1.0, "CVRMSE": 0.1, "PNRMSE": 0.1},
                     "baseline_timezone": tz, "disqualification": list(disqualification), "warnings": list(warnings)},
            "settings": settings}


# every candidate split string of the default season/weekday vocabulary (exact covers of the 3x2 cells)
def all_split_strings():
    """Enumerates exact covers of {su,sh,wi} x {wd,we} by components 'fw-<seasons>' (both day types),
    'wd-<seasons>', 'we-<seasons>' where seasons of a component are joined with '_' in su,sh,wi order."""
    seasons = ["su", "sh", "wi"]

    def partitions(items):
        if not items:
            yield []
            return
        first, rest = items[0], items[1:]
        for p in partitions(rest):
            yield [[first]] + p
            for i in range(len(p)):
                yield p[:i] + [[first] + p[i]] + p[i + 1:]
    out = set()
    # choose which seasons are 'full week'; the rest is split by day type, each day type partitioned freely
    for mask in range(8):
        fw = [s for i, s in enumerate(seasons) if mask >> i & 1]
        rest = [s for s in seasons if s not in fw]
        for pfw in partitions(fw):
            for pwd in partitions(rest):
                for pwe in partitions(rest):
                    comps = ["fw-" + "_".join(sorted(g, key=seasons.index)) for g in pfw]
                    comps += ["wd-" + "_".join(sorted(g, key=seasons.index)) for g in pwd]
                    comps += ["we-" + "_".join(sorted(g, key=seasons.index)) for g in pwe]
                    out.add("__".join(sorted(comps)))
    return sorted(out)


# ---------------------------------------------------------------------------------------------------
# legacy (2.0) model documents: the second way a daily model comes into being (DailyModel.from_2_0_dict / from_2_0_json)
# ---------------------------------------------------------------------------------------------------
KINDS_2_0 = ["hdd_only", "cdd_only", "cdd_hdd", "intercept_only"]


def draw_2_0_doc(rng, kind):
    mp = {"intercept": float(np.round(rng.uniform(2, 60), 3))}
    if kind in ("hdd_only", "cdd_hdd"):
        mp.update(beta_hdd=float(np.round(rng.uniform(0.05, 4), 4)), heating_balance_point=float(rng.integers(40, 62)))
    if kind in ("cdd_only", "cdd_hdd"):
        mp.update(beta_cdd=float(np.round(rng.uniform(0.05, 4), 4)), cooling_balance_point=float(rng.integers(62, 80)))
    return {"model_type": kind, "formula": "meter_value ~ ...", "status": "QUALIFIED", "model_params": mp, "r_squared_adj": 0.5, "warnings": []}


def eval_2_0(doc, T):
    """the 2.0 formula: intercept + beta_hdd * max(hbp - T, 0) + beta_cdd * max(T - cbp, 0) -> (predicted, heating, cooling)"""
    mp = doc["model_params"]
    T = np.asarray(T, dtype=float)
    h = mp.get("beta_hdd", 0.0) * np.maximum(mp.get("heating_balance_point", 0.0) - T, 0.0) if "beta_hdd" in mp else np.zeros(len(T))
    c = mp.get("beta_cdd", 0.0) * np.maximum(T - mp.get("cooling_balance_point", 0.0), 0.0) if "beta_cdd" in mp else np.zeros(len(T))
    return mp["intercept"] + h + c, h, c
