"""Shared helpers for the fit-based checks: datasets, fitted models of every family/profile,
reporting sets.  Everything goes through the public API of the real library."""
import copy

import numpy as np
import pandas as pd

from vf.gen import synth_daily, synth_hourly, billing_reads, daily_weather, daily_usage, daily_index

DAILY_PROFILES = {
    "current": ("current", None),
    "legacy": ("legacy", None),
    "dev-c_hdd": ("current", {"developer_mode": True, "silent_developer_mode": True, "full_model": "c_hdd_tidd"}),
    "dev-nosmooth": ("current", {"developer_mode": True, "silent_developer_mode": True, "allow_smooth_model": False}),
    "dev-alpha-all": ("current", {"developer_mode": True, "silent_developer_mode": True, "alpha_final_type": "all", "alpha_final": 1.5}),
    "dev-nofinal": ("current", {"developer_mode": True, "silent_developer_mode": True, "alpha_final_type": None, "alpha_final": None, "final_bounds_scalar": None}),
    "dev-nogauss": ("current", {"developer_mode": True, "silent_developer_mode": True, "split_selection": {"reduce_splits_by_gaussian": False, "reduce_splits_num_std": None}}),
    "custom-maps": ("current", {"season": {"march": "winter", "october": "summer", "may": "summer"}, "weekday_weekend": {"friday": "weekend"}, "uncertainty_alpha": 0.2}),
    # a day-type map with a THIRD label (accepted by the settings): under the legacy profile the model is never split by day type, every day is
    # predicted by a full-week sub-model
    "legacy-third-daytype": ("legacy", {"weekday_weekend": {"options": ["weekday", "weekend", "closed"], "sunday": "closed"}}),
    "legacy-dev-splits": ("legacy", {"developer_mode": True, "silent_developer_mode": True,
                                     "split_selection": {"allow_separate_weekday_weekend": True, "allow_separate_summer": True, "allow_separate_winter": True, "allow_separate_shoulder": True}}),
}
OCC_NAME = "Occupancy Level"
HOURLY_PROFILES = {
    "default": {},
    "robust": {"scaling_method": "robustscaler"},
    "bins8": {"temperature_bin": {"bin_width": 8}},
    "noedge": {"temperature_bin": {"include_edge_bins": False, "edge_bin_rate": None, "edge_bin_percent": None}},
    "adaptive": {"elasticnet": {"adaptive_weights": True, "adaptive_weight_max_iter": 5, "adaptive_weight_tol": 1e-4}},
    "clusters6": {"temporal_cluster": {"n_cluster_upper": 6, "recluster_count": 1}},
    # supplemental time-series column named in the settings and carried by the data (features not fixed / fixed explicitly)
    # (a column name as feeds deliver them: mixed case, with a space)
    "supp": {"supplemental_time_series_columns": ["Wind Speed", OCC_NAME]},
    "supp-explicit": {"train_features": ["temperature"], "supplemental_time_series_columns": [OCC_NAME, "Wind Speed"]},
    # every enumerated alternative the settings tree accepts (one profile per alternative)
    "nobins": {"temperature_bin": None},
    "nointercept": {"elasticnet": {"fit_intercept": False}},
    "edge-rate": {"temperature_bin": {"edge_bin_rate": 0.05}},
    "cluster-silhouette": {"temporal_cluster": {"score_metric": "silhouette", "recluster_count": 1}},
    "cluster-silmed": {"temporal_cluster": {"score_metric": "silhouette_median", "recluster_count": 1}},
    "cluster-db": {"temporal_cluster": {"score_metric": "davies-bouldin", "recluster_count": 1}},
    "cluster-manhattan": {"temporal_cluster": {"distance_metric": "manhattan", "recluster_count": 1}},
    "cluster-cosine": {"temporal_cluster": {"distance_metric": "cosine", "recluster_count": 1}},
    "cluster-seuclid": {"temporal_cluster": {"distance_metric": "seuclidean", "recluster_count": 1}},
    "wavelet-db3": {"temporal_cluster": {"wavelet_name": "db3", "wavelet_n_levels": 3}},
    "enet-random": {"elasticnet": {"selection": "random"}},
    "minsize": {"temporal_cluster": {"min_cluster_size": 3, "n_cluster_upper": 8}},
    # with baselines that hold a few odd (month, weekday) cells (family flag 'oddcells') the clustering yields clusters below this size:
    # their cells are merged into the outlier group (label -1)
    "minsize5": {"temporal_cluster": {"min_cluster_size": 5, "n_cluster_lower": 3, "recluster_count": 1}},
    # a non-solar profile that takes irradiance as a supplemental regressor (use with the ':ghi' flag): fitted features != configured features
    "nonsolar-supp-ghi": {"train_features": ["temperature"], "supplemental_time_series_columns": ["ghi"]},
}
# the alternatives above that are not in FAMILIES_QUICK: driven by C01 in both tiers (its statement quantifies over every accepted profile)
HOURLY_ALTERNATIVES = ["nobins", "nointercept", "edge-rate", "cluster-silhouette", "cluster-silmed", "cluster-db", "cluster-manhattan", "cluster-cosine", "cluster-seuclid",
                       "wavelet-db3", "enet-random", "minsize", "bins8", "noedge", "clusters6"]


def make_daily_model(profile):
    import opendsm.eemeter as em
    base, st = DAILY_PROFILES[profile]
    return em.DailyModel(model=base, settings=copy.deepcopy(st))


def daily_baseline_df(rng, tz="America/Chicago", kind="both", n=365, noise=0.05, weekend=0.0, season=0.0, outliers=0, start=None):
    start = start or str((pd.Timestamp("2018-01-01") + pd.Timedelta(days=int(rng.integers(0, 365)))).date())
    return synth_daily(tz=tz, start=start, n=n, seed=rng, kind=kind, noise=noise, weekend=weekend, season=season, outliers=outliers)


def fit_daily(rng, profile="current", tz="America/Chicago", ignore_dq=True, **kw):
    import opendsm.eemeter as em
    df = daily_baseline_df(rng, tz=tz, **kw)
    data = em.DailyBaselineData(df, is_electricity_data=True)
    m = make_daily_model(profile).fit(data, ignore_disqualification=ignore_dq)
    return m, data, df


def fit_billing(rng, tz="America/Chicago", kind="both", n_periods=13, cycle=(28, 33), noise=0.03, settings=None):
    import opendsm.eemeter as em
    tdf, bdf, params = billing_reads(rng, tz=tz, n_periods=n_periods, cycle=cycle, kind=kind, noise=noise)
    df = tdf.join(bdf).iloc[:-1]          # frame convention: final row is the last day of the last period
    data = em.BillingBaselineData(df, is_electricity_data=True)
    m = em.BillingModel(settings=settings).fit(data, ignore_disqualification=True)
    return m, data, df


def fit_hourly(rng, profile="default", tz="America/Chicago", days=365, ghi=False, noise=0.05, seed=1, start="2018-01-01", ignore_dq=True):
    import opendsm.eemeter as em
    df = synth_hourly(tz=tz, start=start, days=days, seed=rng, ghi=ghi, noise=noise)
    data = em.HourlyBaselineData(df, is_electricity_data=True)
    st = dict(copy.deepcopy(HOURLY_PROFILES[profile]), seed=seed)
    m = em.HourlyModel(settings=st).fit(data, ignore_disqualification=ignore_dq)
    return m, data, df


def daily_reporting_df(rng, tz, start, n, with_observed=True, temp_nan=0.0, obs_nan=0.0, temp_inf=0, run=None, mean=None):
    idx = daily_index(tz, start, n)
    T = np.round(daily_weather(rng, idx, mean=mean), 2)
    y, _ = daily_usage(rng, T, idx, kind="both", base=20, hb=52, hs=1.0, cb=68, cs=0.7, noise=0.05)
    df = pd.DataFrame({"temperature": T}, index=idx)
    if with_observed:
        df["observed"] = np.round(y, 3)
    if temp_nan:
        k = rng.choice(n, size=max(1, int(temp_nan * n)), replace=False)
        df.iloc[k, 0] = np.nan
    if run:
        a = int(rng.integers(0, max(1, n - run)))
        df.iloc[a:a + run, 0] = np.nan
    if temp_inf:
        k = rng.choice(n, size=min(n, temp_inf), replace=False)
        df.iloc[k, 0] = rng.choice([np.inf, -np.inf], size=len(k))
    if with_observed and obs_nan:
        k = rng.choice(n, size=max(1, int(obs_nan * n)), replace=False)
        df.iloc[k, 1] = np.nan
    return df


# ---------------------------------------------------------------------------------------------------
# one interface over the model families (used by C01, C02, C03, C04, C05, C06)
# ---------------------------------------------------------------------------------------------------
class Family:
    """name in {daily:<profile>, billing, hourly:<profile>[:ghi][:irregular], caltrack}"""

    def __init__(self, name):
        self.name = name
        parts = name.split(":")
        self.kind = parts[0]
        self.profile = parts[1] if len(parts) > 1 else ("current" if self.kind == "daily" else "default")
        self.ghi = "ghi" in parts[2:]
        self.irregular = "irregular" in parts[2:]            # seed-sensitive load shapes
        self.occupancy = self.kind == "hourly" and self.profile.startswith("supp")
        self.oddcells = "oddcells" in parts[2:]              # a few (month, weekday) cells with a load shape of their own (holiday weekends)
        self.edgegaps = "edgegaps" in parts[2:]              # missing hours within a day of the first / last timestamp of the frame
        self.timer = "timer" in parts[2:]                    # a timer-driven load: exactly the same daily schedule all year, no noise

    # ---- classes ------------------------------------------------------------------------------------
    def classes(self):
        import opendsm.eemeter as em
        if self.kind == "daily":
            return em.DailyModel, em.DailyBaselineData, em.DailyReportingData
        if self.kind == "billing":
            return em.BillingModel, em.BillingBaselineData, em.BillingReportingData
        if self.kind == "hourly":
            return em.HourlyModel, em.HourlyBaselineData, em.HourlyReportingData
        from opendsm.eemeter.models.hourly_caltrack import HourlyModel, HourlyBaselineData, HourlyReportingData
        return HourlyModel, HourlyBaselineData, HourlyReportingData

    def new_model(self, seed=1):
        import opendsm.eemeter as em
        M = self.classes()[0]
        if self.kind == "daily":
            return make_daily_model(self.profile)
        if self.kind == "billing":
            return M()
        if self.kind == "hourly":
            return M(settings=dict(copy.deepcopy(HOURLY_PROFILES[self.profile]), seed=seed))
        return M()

    # ---- data ---------------------------------------------------------------------------------------
    def baseline_frame(self, rng, tz="America/Chicago", days=365, noise=0.05, start=None, kind="both", weekend=0.2):
        if self.kind == "daily":
            return daily_baseline_df(rng, tz=tz, kind=kind, n=days, noise=noise, weekend=weekend, start=start)
        if self.kind == "billing":
            tdf, bdf, _ = billing_reads(rng, tz=tz, start=start or "2018-01-01", n_periods=max(3, days // 30), kind=kind, noise=noise)
            return tdf.join(bdf).iloc[:-1]
        df = synth_hourly(tz=tz, start=start or "2018-01-01", days=days, seed=rng, ghi=self.ghi, noise=noise,
                          irregular=self.irregular, occupancy=self.occupancy, occupancy_name=OCC_NAME)
        if self.edgegaps and len(df) > 400:
            oc, tc_ = df.columns.get_loc("observed"), df.columns.get_loc("temperature")
            df.iloc[26:33, oc] = np.nan
            df.iloc[3:5, oc] = np.nan
            df.iloc[-100:-92, oc] = np.nan
            df.iloc[-9:-6, oc] = np.nan
            df.iloc[40:43, tc_] = np.nan
            df.iloc[-60:-57, tc_] = np.nan
            df.iloc[-4:-2, tc_] = np.nan
        if self.timer:
            sched = np.array([2, 2, 2, 2, 2, 3, 5, 8, 9, 9, 9, 9, 8, 9, 9, 9, 8, 6, 5, 4, 3, 3, 2, 2], dtype=float)
            df["observed"] = sched[df.index.hour.values]
        if self.oddcells:
            sel = np.zeros(len(df), bool)
            for mth, dow in ((12, 5), (12, 6), (1, 6)):
                sel |= (df.index.month.values == mth) & (df.index.dayofweek.values == dow)
            h = df.index.hour.values
            df.loc[sel, "observed"] = (4 + 3 * np.cos(2 * np.pi * h / 24))[sel] * float(df["observed"].mean()) / 2
        return df

    def baseline_data(self, df):
        B = self.classes()[1]
        return B(df.copy() if self.kind == "caltrack" else df, is_electricity_data=True)

    def reporting_frame(self, rng, tz, start, days, with_observed=True, mean=None):
        if self.kind in ("daily", "billing"):
            return daily_reporting_df(rng, tz, start, days, with_observed=with_observed, mean=mean)
        df = synth_hourly(tz=tz, start=start, days=days, seed=rng, ghi=self.ghi, noise=0.05, mean=mean if mean is not None else 55.0,
                          irregular=self.irregular, occupancy=self.occupancy, occupancy_name=OCC_NAME)
        if not with_observed:
            df = df.drop(columns=["observed"])
        return df

    def reporting_data(self, df):
        R = self.classes()[2]
        return R(df.copy() if self.kind == "caltrack" else df, is_electricity_data=True)

    # ---- operations ---------------------------------------------------------------------------------
    def fit(self, model, data, ignore_dq=True):
        if self.kind == "caltrack":
            return model.fit(data)
        return model.fit(data, ignore_disqualification=ignore_dq)

    def predict(self, model, data, ignore_dq=True, **kw):
        if self.kind == "caltrack":
            return model.predict(data)
        return model.predict(data, ignore_disqualification=ignore_dq, **kw)

    def from_json(self, js):
        return self.classes()[0].from_json(js)

    def from_dict(self, d):
        return self.classes()[0].from_dict(d)


# every alternative fitting path of the hourly family (other scaler, adaptive re-weighting) is in the quick tier too: state that only one of them keeps
# (fitted scalers, warm-started estimators) is invisible under the default profile
FAMILIES_QUICK = ["daily:current", "daily:legacy", "billing", "hourly:default", "hourly:default:ghi", "caltrack", "hourly:supp", "hourly:robust", "hourly:adaptive", "hourly:minsize5:oddcells"]
FAMILIES_ALL = ["daily:" + p for p in DAILY_PROFILES if p != "legacy-third-daytype"] + ["billing"] + ["hourly:" + p for p in HOURLY_PROFILES] + \
               ["hourly:default:ghi", "hourly:robust:ghi", "hourly:bins8:ghi", "hourly:default:irregular", "hourly:supp:ghi"] + ["caltrack"]
