"""Check driver.

    ./check C07 [--tier quick|thorough] [--replay file] [--jobs N] [--only kind]

A property module `vf.props.<ID>` provides

    gen_cases(tier, seed) -> list[dict]      JSON-serialisable case specs (each gets an 'i')
    run_case(spec)        -> dict            executed in a worker subprocess, real code under monitors:
                                             {"viol": [ {"mech": str, "what": str, ...witness} ],
                                              "reach": {monitor: count}, "key": hashable/str or None,
                                              "hist": {name: label or [labels]}, "events": int}
    REQUIRED_REACH = {monitor: min count}    deciding monitors; fewer observations => INCONCLUSIVE
    RULE = "..."                             how cases are generated and what counts as non-trivial
    LEVEL_NOTE / ASSUMPTIONS                 text for the evidence file
    finalize(results, tier) -> dict          optional extra coverage keys (may add "viol" too)

Verdicts are three-valued (DESIGN.md): exit 0 held on what was observed, exit 1 + VIOLATION line,
exit 2 + INCONCLUSIVE line (a deciding monitor was never reached, a worker died or timed out).
"""
import argparse
import collections
import hashlib
import importlib
import json
import os
import queue
import subprocess
import sys
import threading
import time

from . import boot

ROOT = boot.ROOT
EVID = os.path.join(ROOT, "evidence")
KNOWN = os.path.join(ROOT, "known_findings.json")


def load_known(pid):
    if not os.path.exists(KNOWN):
        return {}
    doc = json.load(open(KNOWN))
    out = {}
    for e in doc.get("findings", []):
        if e.get("property") == pid and e.get("status") == "open":
            out[e["mech"]] = e
    return out


class Worker:
    """One subprocess running vf.shard; fed one case at a time (dynamic load balancing)."""

    def __init__(self, pid, extra_env=None):
        self.pid = pid
        self.extra_env = extra_env
        self.p = None
        self.start()

    def start(self):
        self.p = subprocess.Popen(
            [boot.PY, "-X", "faulthandler", "-m", "vf.shard", self.pid],
            stdin=subprocess.PIPE, stdout=subprocess.PIPE, stderr=subprocess.PIPE,
            env=boot.worker_env(self.extra_env), cwd=ROOT, text=True, bufsize=1)
        self.err = collections.deque(maxlen=60)
        t = threading.Thread(target=self._drain, daemon=True)
        t.start()

    def _drain(self):
        p = self.p
        for line in p.stderr:
            self.err.append(line.rstrip())

    def run(self, spec, timeout):
        """Returns a result dict; on crash/timeout returns {"status": "crash"|"timeout"} and restarts."""
        try:
            self.p.stdin.write(json.dumps(spec) + "\n")
            self.p.stdin.flush()
        except (BrokenPipeError, OSError):
            tail = list(self.err)[-15:]
            self.restart()
            return {"status": "crash", "stderr": tail}
        box = {}

        def rd():
            while True:
                line = self.p.stdout.readline()
                if not line:
                    box["eof"] = True
                    return
                if line.startswith("@@RESULT "):
                    box["line"] = line[len("@@RESULT "):]
                    return
        th = threading.Thread(target=rd, daemon=True)
        th.start()
        th.join(timeout)
        if "line" in box:
            try:
                return json.loads(box["line"])
            except Exception as e:  # pragma: no cover
                return {"status": "crash", "stderr": ["bad result line: %r" % e]}
        status = "crash" if box.get("eof") else "timeout"
        tail = list(self.err)[-15:]
        self.restart()
        return {"status": status, "stderr": tail}

    def restart(self):
        self.close(kill=True)
        self.start()

    def close(self, kill=False):
        try:
            if kill:
                self.p.kill()
            else:
                self.p.stdin.close()
            self.p.wait(timeout=20)
        except Exception:
            try:
                self.p.kill()
            except Exception:
                pass


def run_cases(pid, cases, jobs, timeout, extra_env=None, progress=True):
    q = queue.Queue()
    for c in cases:
        q.put(c)
    results = [None] * len(cases)
    index = {c["i"]: k for k, c in enumerate(cases)}
    done = [0]
    lock = threading.Lock()
    t0 = time.time()

    def loop():
        w = Worker(pid, extra_env)
        try:
            while True:
                try:
                    c = q.get_nowait()
                except queue.Empty:
                    return
                r = w.run(c, c.get("timeout", timeout))
                r["i"] = c["i"]
                results[index[c["i"]]] = r
                with lock:
                    done[0] += 1
                    if progress and (done[0] % max(1, len(cases) // 10) == 0):
                        sys.stderr.write("  [%s] %d/%d cases  %.0fs\n" % (pid, done[0], len(cases), time.time() - t0))
        finally:
            w.close()

    n = max(1, min(jobs, len(cases)))
    ths = [threading.Thread(target=loop) for _ in range(n)]
    for t in ths:
        t.start()
    for t in ths:
        t.join()
    return results


def _jsonable(o):
    try:
        import numpy as np
        if isinstance(o, (np.integer,)):
            return int(o)
        if isinstance(o, (np.floating,)):
            return float(o)
        if isinstance(o, np.ndarray):
            return o.tolist()
        if isinstance(o, np.bool_):
            return bool(o)
    except Exception:
        pass
    return repr(o)


def warm_numba():
    """One process compiles the numba kernels into the shared cache before 16 workers race to do it."""
    cache = os.path.join(boot.CACHE, "numba")
    os.makedirs(cache, exist_ok=True)
    import fcntl
    repo = os.environ.get("VERIF_REPO") or "/repo"
    st = []
    for dp, dn, fn in os.walk(os.path.join(repo, "opendsm")):
        for f in fn:
            if f.endswith(".py"):
                s_ = os.stat(os.path.join(dp, f))
                st.append((os.path.join(dp, f), s_.st_mtime_ns, s_.st_size))
    sig = hashlib.sha1(repr(sorted(st)).encode()).hexdigest()
    stamp = os.path.join(boot.CACHE, "warm.stamp")
    with open(os.path.join(boot.CACHE, ".warm.lock"), "w") as lk:
        fcntl.flock(lk, fcntl.LOCK_EX)
        if os.path.exists(stamp) and open(stamp).read().strip() == sig:
            return
        r = subprocess.run([boot.PY, "-m", "vf.warm"], env=boot.worker_env(), cwd=ROOT,
                           capture_output=True, text=True, timeout=900)
        if r.returncode != 0:
            sys.stderr.write("warm-up failed (continuing):\n" + r.stdout[-2000:] + r.stderr[-2000:])
        else:
            open(stamp, "w").write(sig)


def main(argv=None):
    ap = argparse.ArgumentParser()
    ap.add_argument("prop")
    ap.add_argument("--tier", default=os.environ.get("VERIF_TIER") or "quick", choices=["quick", "thorough"])
    ap.add_argument("--replay")
    ap.add_argument("--jobs", type=int, default=int(os.environ.get("VERIF_JOBS", "16")))
    ap.add_argument("--only", help="restrict to cases whose 'kind' matches")
    ap.add_argument("--limit", type=int)
    a = ap.parse_args(argv)
    pid = a.prop
    try:
        seed = int(os.environ.get("VERIF_SEED", "0") or 0)
    except ValueError:
        seed = 0
    boot.ensure_deps()
    t0 = time.time()
    mod = importlib.import_module("vf.props." + pid)

    if a.replay:
        doc = json.load(open(a.replay))
        spec = doc["spec"]
        res = run_cases(pid, [spec], 1, getattr(mod, "CASE_TIMEOUT", 600) * 3, progress=False)[0]
        print(json.dumps(res, indent=1, default=_jsonable)[:20000])
        bad = [v for v in res.get("viol", [])]
        known = load_known(pid)
        new = [v for v in bad if v.get("mech") not in known]
        for v in bad:
            if v.get("mech") in known:
                print("KNOWN-FINDING: property=%s %s" % (pid, known[v["mech"]]["what"]))
        if new:
            print("VIOLATION property=%s replay=%s" % (pid, a.replay))
            return 1
        return 0 if res.get("status") == "ok" else 2

    if getattr(mod, "NEEDS_NUMBA", True):
        warm_numba()
    cases = mod.gen_cases(a.tier, seed)
    for k, c in enumerate(cases):
        c.setdefault("i", k)
        c["seed"] = seed
        c["tier"] = a.tier
    if a.only:
        cases = [c for c in cases if a.only in str(c.get("kind"))]
    if a.limit:
        cases = cases[: a.limit]
    timeout = getattr(mod, "CASE_TIMEOUT", 600)
    extra_env = getattr(mod, "WORKER_ENV", None)
    results = run_cases(pid, cases, a.jobs, timeout, extra_env)

    # ---- aggregate -----------------------------------------------------------------------
    known = load_known(pid)
    reach = collections.Counter()
    hist = collections.defaultdict(collections.Counter)
    keys = set()
    viols, knowns_seen, dead = [], collections.OrderedDict(), []
    events = 0
    for c, r in zip(cases, results):
        if r is None or r.get("status") != "ok":
            dead.append({"i": c["i"], "kind": c.get("kind"), "status": (r or {}).get("status"),
                         "stderr": (r or {}).get("stderr", [])[-8:], "error": (r or {}).get("error")})
            continue
        for k, v in (r.get("reach") or {}).items():
            reach[k] += v
        for k, v in (r.get("hist") or {}).items():
            if isinstance(v, dict):
                for kk, n in v.items():
                    hist[k][str(kk)] += n
            else:
                for lab in (v if isinstance(v, list) else [v]):
                    hist[k][str(lab)] += 1
        for key in (r.get("keys") or ([r["key"]] if r.get("key") is not None else [])):
            keys.add(key if isinstance(key, str) else json.dumps(key, sort_keys=True, default=_jsonable))
        events += int(r.get("events", 0))
        for v in r.get("viol") or []:
            v["case"] = c["i"]
            if v.get("mech") in known:
                knowns_seen.setdefault(v["mech"], []).append(v)
            else:
                viols.append((c, v))
    extra = {}
    if hasattr(mod, "finalize"):
        extra = mod.finalize(cases, results, a.tier) or {}
        for v in extra.pop("viol", []):
            if v.get("mech") in known:
                knowns_seen.setdefault(v["mech"], []).append(v)
            else:
                viols.append(({"kind": "finalize"}, v))
        for k, v in (extra.pop("reach", {}) or {}).items():
            reach[k] += v

    required = dict(getattr(mod, "REQUIRED_REACH", {}))
    if a.tier == "thorough":
        required.update(getattr(mod, "REQUIRED_REACH_THOROUGH", {}))
    if a.only or a.limit:
        required = {}
    missing = {k: (reach.get(k, 0), n) for k, n in required.items() if reach.get(k, 0) < n}

    # ---- replay files --------------------------------------------------------------------
    rdir = os.path.join(EVID, "replay", pid)
    os.makedirs(rdir, exist_ok=True)
    for f in os.listdir(rdir):            # witnesses of earlier runs of this tier are stale
        if f.startswith("%s_%s_" % (pid, a.tier)):
            os.remove(os.path.join(rdir, f))
    replay_paths = []
    by_mech = collections.Counter()
    for c, v in viols:
        by_mech[v.get("mech")] += 1
        if by_mech[v.get("mech")] > 5:
            continue
        h = hashlib.sha1(json.dumps([c, v.get("mech")], sort_keys=True, default=_jsonable).encode()).hexdigest()[:10]
        path = os.path.join(rdir, "%s_%s_%s.json" % (pid, a.tier, h))
        json.dump({"property": pid, "spec": c, "violation": v}, open(path, "w"), indent=1, default=_jsonable)
        replay_paths.append((path, v))

    # ---- evidence ------------------------------------------------------------------------
    wall = time.time() - t0
    samples = getattr(mod, "sample_view", lambda c, r: {"spec": c, "reach": (r or {}).get("reach"),
                                                        "hist": (r or {}).get("hist")})
    shown = []
    seen_kinds = set()
    for c, r in zip(cases, results):
        if r and r.get("status") == "ok" and c.get("kind") not in seen_kinds:
            seen_kinds.add(c.get("kind"))
            shown.append(samples(c, r))
        if len(shown) >= 8:
            break
    cov = {
        "evaluations": int(max(events, len(cases))),
        "cases": len(cases),
        "distinct_nontrivial": len(keys),
        "rule": getattr(mod, "RULE", ""),
        "samples": shown or [{"note": "no case completed"}],
        "monitor_reach": dict(sorted(reach.items())),
        "required_reach": required,
        "histograms": {k: dict(v.most_common(60)) for k, v in sorted(hist.items())},
        "known_findings_observed": {m: {"count": len(vs), "example": vs[0]} for m, vs in knowns_seen.items()},
        "inconclusive_cases": dead[:20],
        "inconclusive_count": len(dead),
        "verdict": "violated" if viols else ("inconclusive" if (dead or missing) else "held on what was observed"),
    }
    cov.update(extra)
    ev = {
        "property_id": pid, "tier": a.tier, "seed": seed,
        "level": getattr(mod, "LEVEL", "exploration"),
        "coverage": cov,
        "assumptions": list(getattr(mod, "ASSUMPTIONS", [])),
        "wall_s": round(wall, 2),
        "violations": len(viols),
    }
    os.makedirs(EVID, exist_ok=True)
    path = os.path.join(EVID, pid + ".json")
    if a.only or a.limit:                 # partial runs never overwrite the evidence of a full run
        os.makedirs(os.path.join(EVID, "tmp"), exist_ok=True)
        path = os.path.join(EVID, "tmp", pid + ".partial.json")
    elif os.path.realpath(os.environ.get("VERIF_REPO") or "/repo") != "/repo":
        # a run against a scratch copy (seeded change) is not evidence about /repo
        os.makedirs(os.path.join(EVID, "tmp"), exist_ok=True)
        path = os.path.join(EVID, "tmp", pid + ".scratch-%d.json" % os.getpid())
    txt = json.dumps(ev, indent=1, default=_jsonable, sort_keys=False)
    open(path, "w").write(txt + "\n")
    try:
        import jsonschema
        schema = json.load(open(os.path.join(ROOT, "vf", "EVIDENCE.schema.json")))
        try:
            jsonschema.validate(json.loads(txt), schema)
        except jsonschema.ValidationError as e:
            print("[%s] evidence file does not validate (run observed too little): %s" % (pid, e.message))
    except ImportError:
        pass

    # ---- verdict -------------------------------------------------------------------------
    print("[%s] tier=%s seed=%d cases=%d events=%d distinct=%d wall=%.0fs" % (
        pid, a.tier, seed, len(cases), cov["evaluations"], len(keys), wall))
    print("[%s] reach: %s" % (pid, json.dumps(dict(sorted(reach.items())))))
    for m, vs in knowns_seen.items():
        print("KNOWN-FINDING: property=%s %s (observed %d times this run; mechanism %s)" % (
            pid, known[m]["what"], len(vs), m))
    if viols:
        for m, n in by_mech.items():
            print("[%s] violation mechanism %s: %d witnesses" % (pid, m, n))
        printed = set()
        for path_, v in replay_paths:
            if path_ in printed or len(printed) >= 12:
                continue
            printed.add(path_)
            print("  witness: %s" % json.dumps(v, default=_jsonable)[:600])
            print("VIOLATION property=%s replay=%s" % (pid, os.path.relpath(path_, ROOT)))
        return 1
    if dead or missing:
        print("INCONCLUSIVE property=%s dead_cases=%d missing_reach=%s" % (pid, len(dead), json.dumps(missing)))
        for d in dead[:5]:
            print("  dead:", json.dumps(d, default=_jsonable)[:1500])
        return 2
    print("[%s] held on what was observed" % pid)
    return 0


if __name__ == "__main__":
    sys.exit(main())
