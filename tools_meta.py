#!/usr/bin/env python3
"""tools_meta.py <seeded-name> <caught_by,comma> <result text>: record in seeded/<name>/meta.json which check catches the change"""
import json, sys
name, ids, text = sys.argv[1], sys.argv[2].split(","), sys.argv[3]
p = "/verif/seeded/%s/meta.json" % name
m = json.load(open(p))
m["verif"] = {"caught_by": ids, "tier": "quick", "ran": "./tools_seeded.sh %s quick [ids]  (scratch worktree of /repo HEAD + patch, VERIF_REPO=<worktree>, demo and check)" % name, "result": text}
json.dump(m, open(p, "w"), indent=1)
print("ok", name)
